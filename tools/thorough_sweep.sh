#!/bin/bash
# tools/thorough_sweep.sh <seed> [seed...]   — thorough tier of every claimed check for each seed (background use via `vp run`)
ROOT="$(cd "$(dirname "${BASH_SOURCE[0]}")/.." && pwd)"; cd "$ROOT"
for seed in "$@"; do
  for p in $(python3 -c "import json;print(' '.join(c['property_id'] for c in json.load(open('MANIFEST.json'))['checks']))"); do
    s=$(date +%s); out=$(VERIF_SEED=$seed bin/check $p thorough 2>&1); code=$?
    echo "seed=$seed $p exit=$code $(( $(date +%s) - s ))s $(echo "$out" | grep -E '^vcheck: [0-9]+ simulated' | sed 's/vcheck: //') $(echo "$out" | grep '^  key:' | tr '\n' ' ')"
    if [ $code -ne 0 ]; then echo "$out" | tail -12 | cut -c1-600; fi
  done
done
