#!/bin/bash
# tools/wave.sh <prefix> <pid> ...   — confirm and run the quick check for every seeded change /tmp/<prefix>-<pid>/m*/ (scratch worktrees only)
ROOT="$(cd "$(dirname "${BASH_SOURCE[0]}")/.." && pwd)"
prefix="$1"; shift
for p in "$@"; do
  for d in /tmp/$prefix-$p/m*/; do
    m=$(basename $d)
    [ -f $d/patch.diff ] || continue
    wt=/tmp/wt-confirm-$$
    git -C /repo worktree add -q --detach $wt HEAD
    c=$($ROOT/tools/confirm_mutant.sh $wt $d 2>&1 | grep RESULT)
    git -C /repo worktree remove --force $wt; git -C /repo worktree prune
    r=$(MUT_WORKTREE=1 $ROOT/tools/runmutant.sh $d/patch.diff quick $p 2>&1 | tail -1)
    echo "$p $m | $c | $r"
  done
done
