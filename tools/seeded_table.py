#!/usr/bin/env python3
"""tools/seeded_table.py — regenerates the seeded-change table of DESIGN.md §12.4 (between the seeded-table markers) from /verif/seeded/*/meta.json."""
import json, glob, os, re
root = os.path.dirname(os.path.dirname(os.path.abspath(__file__)))
rows = []
metas = [json.load(open(f)) for f in sorted(glob.glob(root + '/seeded/*/meta.json'))]
def wave(m):
    s = m['id'].split('-')[1]
    mm = re.match(r'w(\d+)m', s)
    return int(mm.group(1)) if mm else 1
metas.sort(key=lambda m: (m['property'], wave(m), m['id']))
missed = sum(1 for m in metas if m.get('missed_at_first'))
out = ['<!-- seeded-table:begin -->',
       '%d seeded changes, %d missed at first (each led to the strengthening in the last column); %d are detected now, %d recorded as not detected (check `none`).' % (len(metas), missed, sum(1 for m in metas if m['detected_by']['check'] != 'none'), sum(1 for m in metas if m['detected_by']['check'] == 'none')), '',
       '| seeded change | needs | detected by (check, tier: finding key) | missed at first → strengthening |',
       '|---------------|-------|------------------------------------------|----------------------------------|']
for m in metas:
    d = m['detected_by']
    out.append('| %s %s | %s | %s %s: `%s` | %s |' % (m['id'], m['change'].replace('|', '\\|'), m['needs_to_manifest'].replace('|', '\\|'), d['check'], d['tier'], d['finding_key'].replace('|', '\\|'),
               ('yes → ' + m.get('strengthening', '').replace('|', '\\|')) if m.get('missed_at_first') else ''))
out.append('<!-- seeded-table:end -->')
p = root + '/DESIGN.md'
s = open(p).read()
b, e = s.find('<!-- seeded-table:begin -->'), s.find('<!-- seeded-table:end -->')
assert b >= 0 and e > b, 'markers missing'
s = s[:b] + '\n'.join(out) + s[e + len('<!-- seeded-table:end -->'):]
open(p, 'w').write(s)
print(len(metas), 'rows,', missed, 'missed at first')
