#!/usr/bin/env python3
"""tools/store_seeded.py <prefix> <suffix> <json-file>  — copies confirmed seeded changes from /tmp/<prefix>-<pid>/<m>/ into /verif/seeded/<pid>-<suffix><m>/ with meta.json.
The json file maps "<pid> <m>" to [change, needs, check, key, missed_at_first, strengthening]."""
import json, os, shutil, sys
prefix, suffix, jf = sys.argv[1:4]
info = json.load(open(jf))
for k, (what, needs, check, key, missed, strength) in sorted(info.items()):
    pid, m = k.split()
    src = '/tmp/%s-%s/%s' % (prefix, pid, m)
    d = '/verif/seeded/%s-%s%s' % (pid, suffix, m)
    os.makedirs(d, exist_ok=True)
    shutil.copy(src + '/patch.diff', d + '/patch.diff')
    shutil.copy(src + '/demo_test.go', d + '/demo_test.go')
    if os.path.exists(src + '/README.md'):
        shutil.copy(src + '/README.md', d + '/author_README.md')
    meta = {"id": os.path.basename(d), "property": pid, "change": what, "needs_to_manifest": needs,
            "origin": "independent sub-agent given only the property text and a scratch worktree",
            "confirmed": "tools/confirm_mutant.sh in a scratch worktree: unchanged tree + demo passes, changed tree + demo fails, changed tree passes the existing suite (212 tests)",
            "ran": "MUT_WORKTREE=1 tools/runmutant.sh seeded/%s/patch.diff quick %s  (change applied in a scratch worktree, checks pointed at it with VERIF_REPO; equivalent to git -C /repo apply / checkout)" % (os.path.basename(d), check),
            "detected_by": {"check": check, "tier": "quick", "finding_key": key}, "missed_at_first": missed}
    if missed:
        meta["strengthening"] = strength
    json.dump(meta, open(d + '/meta.json', 'w'), indent=1)
    print("stored", d)
