#!/bin/bash
# tools/confirm_mutant.sh <worktree> <mutdir>   — confirms a seeded change independently in a scratch worktree:
#   (a) unchanged tree + demo passes, (b) changed tree + demo fails, (c) changed tree passes the existing suite.
set -u
wt="$1"; md="$2"
T() { (cd "$wt" && env -u GOFLAGS -u GOSUMDB -u GOTOOLCHAIN go test -mod=mod -vet=off -count=1 "$@" 2>&1); }
git -C "$wt" checkout -q -- . ; git -C "$wt" clean -fdq
dest=$(head -3 "$md/demo_test.go" | grep -o 'pkg/[A-Za-z0-9_/]*' | head -1); dest=${dest:-pkg/provider}
pkgdir="./${dest%/}/"
demo="$wt/${dest%/}/zz_seeded_demo_test.go"
cp "$md/demo_test.go" "$demo"
a=$(T "$pkgdir"); ac=$?
if ! git -C "$wt" apply "$md/patch.diff"; then echo "RESULT patch-does-not-apply"; rm -f "$demo"; exit 1; fi
b=$(T "$pkgdir"); bc=$?
rm -f "$demo"
c=$(T ./...); cc=$?
git -C "$wt" checkout -q -- . ; git -C "$wt" clean -fdq
echo "RESULT unchanged+demo=$ac changed+demo=$bc changed-suite=$cc  (want 0, non-0, 0)"
if [ $ac -ne 0 ]; then echo "$a" | tail -15; fi
if [ $bc -eq 0 ]; then echo "demo does not fail with the change"; fi
if [ $cc -ne 0 ]; then echo "$c" | grep -v "no test files" | tail -15; fi
[ $ac -eq 0 ] && [ $bc -ne 0 ] && [ $cc -eq 0 ]
