#!/bin/bash
# tools/check_wave.sh <prefix> <tier> <pid> ...  — runs the property's own check against every seeded change /tmp/<prefix>-<pid>/m*/ in a scratch worktree
ROOT="$(cd "$(dirname "${BASH_SOURCE[0]}")/.." && pwd)"
prefix="$1"; tier="$2"; shift 2
for p in "$@"; do
  for d in /tmp/$prefix-$p/m*/; do
    [ -f $d/patch.diff ] || continue
    r=$(MUT_WORKTREE=1 $ROOT/tools/runmutant.sh $d/patch.diff $tier $p 2>&1 | tail -1)
    echo "$p $(basename $d) | $r"
  done
done
