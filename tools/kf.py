import json,sys
k=json.load(open('/verif/known_findings.json'))
status,prop,key,what=sys.argv[1:5]
commit=sys.argv[5] if len(sys.argv)>5 else None
e={"status":status,"property":prop,"key":key,"what":what}
if commit:
    e["commit"]=commit
    e["line"]="fixed: property=%s %s %s"%(prop,commit,what)
k=[x for x in k if x["key"]!=key]
k.append(e)
json.dump(k,open('/verif/known_findings.json','w'),indent=1)
