#!/bin/bash
# tools/runmutant.sh <patch.diff> <tier> <prop> [prop...]
# Applies a seeded change to /repo's working tree, runs the named checks, and ALWAYS restores the tree afterwards.
# Prints one line per check: <prop> exit=<code> <first violation key or ->.
set -u
patch="$1"; tier="$2"; shift 2
if ! git -C /repo diff --quiet; then echo "runmutant: /repo has uncommitted changes, refusing" >&2; exit 2; fi
restore() { git -C /repo checkout -- . ; git -C /repo clean -fdq pkg >/dev/null 2>&1; }
trap restore EXIT
if ! git -C /repo apply "$patch"; then echo "runmutant: patch does not apply" >&2; exit 2; fi
for p in "$@"; do
  out=$(cd /verif && VERIF_EVIDENCE_DIR=/verif/.build/mutant-evidence bin/check "$p" "$tier" 2>&1); code=$?
  key=$(echo "$out" | grep -m1 '^  key:' | sed 's/^  key: //')
  echo "$p exit=$code ${key:--}"
done
