#!/bin/bash
# tools/runmutant.sh <patch.diff> <tier> <prop> [prop...]
# Runs the named checks against a seeded change. Default: apply to /repo's working tree and ALWAYS restore it afterwards.
# With MUT_WORKTREE=1 the change is applied in a scratch worktree under /tmp instead (use while /repo must stay untouched,
# e.g. during a background sweep); the worktree is removed afterwards.
# Prints one line per check: <prop> exit=<code> <first violation key or ->.
set -u
ROOT="$(cd "$(dirname "${BASH_SOURCE[0]}")/.." && pwd)"
patch="$(readlink -f "$1")"; tier="$2"; shift 2
if [ "${MUT_WORKTREE:-0}" = 1 ]; then
  wt=/tmp/wt-mut-$$
  git -C /repo worktree add -q --detach $wt HEAD || exit 2
  trap 'git -C /repo worktree remove --force '$wt'; git -C /repo worktree prune' EXIT
  if ! git -C $wt apply "$patch"; then echo "runmutant: patch does not apply" >&2; exit 2; fi
  export VERIF_REPO=$wt
else
  if ! git -C /repo diff --quiet; then echo "runmutant: /repo has uncommitted changes, refusing" >&2; exit 2; fi
  restore() { git -C /repo checkout -- . ; git -C /repo clean -fdq pkg >/dev/null 2>&1; }
  trap restore EXIT
  if ! git -C /repo apply "$patch"; then echo "runmutant: patch does not apply" >&2; exit 2; fi
fi
for p in "$@"; do
  out=$(cd $ROOT && VERIF_EVIDENCE_DIR=$ROOT/.build/mutant-evidence bin/check "$p" "$tier" 2>&1); code=$?
  key=$(echo "$out" | grep -m1 '^  key:' | sed 's/^  key: //')
  echo "$p exit=$code ${key:--}"
done
