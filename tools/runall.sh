#!/bin/bash
# tools/runall.sh [quick|thorough]  — every claimed check once on /repo's working tree; one summary line each.
tier="${1:-quick}"
cd "$(cd "$(dirname "${BASH_SOURCE[0]}")/.." && pwd)"
for p in $(python3 -c "import json;print(' '.join(c['property_id'] for c in json.load(open('MANIFEST.json'))['checks']))"); do
  s=$(date +%s); out=$(bin/check $p $tier 2>&1); code=$?; e=$(( $(date +%s) - s ))
  echo "$p exit=$code ${e}s $(echo "$out" | grep -c '^KNOWN-FINDING') known; $(echo "$out" | grep -E '^vcheck: [0-9]+ simulated' | sed 's/vcheck: //') $(echo "$out" | grep -m1 '^  key:')"
  if [ $code -ne 0 ]; then echo "$out" | tail -5 | cut -c1-400; fi
done
