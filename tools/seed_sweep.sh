#!/bin/bash
# tools/seed_sweep.sh <tier> <seed> [seed...]  — every claimed check once per seed on /repo's working tree; evidence goes to a scratch
# directory (the committed evidence must come from the registered commands). One line per (seed, property); non-zero exits are shown.
ROOT="$(cd "$(dirname "${BASH_SOURCE[0]}")/.." && pwd)"; cd "$ROOT"
tier="$1"; shift
for seed in "$@"; do
  for p in $(python3 -c "import json;print(' '.join(c['property_id'] for c in json.load(open('MANIFEST.json'))['checks']))"); do
    s=$(date +%s); out=$(VERIF_SEED=$seed VERIF_EVIDENCE_DIR=$ROOT/.build/sweep-evidence bin/check $p $tier 2>&1); code=$?
    echo "seed=$seed $p exit=$code $(( $(date +%s) - s ))s $(echo "$out" | grep -E '^vcheck: [0-9]+ simulated' | sed 's/vcheck: //') $(echo "$out" | grep '^  key:' | tr '\n' ' ')"
    if [ $code -ne 0 ]; then echo "$out" | tail -12 | cut -c1-600; fi
  done
done
