#!/usr/bin/env python3
"""Regenerates /verif/MANIFEST.json from the table below (kept in one place so that the manifest stays valid)."""
import json, sys

BASELINE_OFF = "cd /repo && env -u GOFLAGS -u GOSUMDB -u GOTOOLCHAIN go test -mod=mod -json -vet=off -count=1 -timeout 25m ./..."

CLAIMED = {
 "C01": dict(level="exploration", tech="deterministic simulation: seeded interleavings of SSO / login-completion / callback tasks parked at every storage call, storage-fault injection, reference session model at the storage linearisation point",
   text="Seeded search over whole-system executions: several sessions, callbacks fired before/while/after login completion, duplicated, with foreign/unknown ids, under storage errors, key faults, request deletion, replica restarts and clock jumps; every callback reply is decoded independently and judged against the snapshot the storage handed to that very task. Sampling, not proof; exploration is the right level because the property quantifies over histories and interleavings that only a history-carrying simulator reaches.",
   ref="§5 C01", note="Trusts synctest's fake clock and quiescence detection, the simulator's storage semantics (immutable snapshot per AuthRequestByID call; in the flavour 'live records' a live view, judged by an interval rule over the stored request's recorded states; in the flavour 'requests per tenant' the issuer value of the call's context selects the tenant), and the independent XML/HTML decoders."),
 "C02": dict(level="exploration", tech="deterministic simulation: a simulated browser resolves where every reply would send it (independent HTML5 form reader / Location parser) while an attacker rewrites requests in flight and SPs re-register with different endpoints between SSO and callback; transport invariant 'target ∈ registered endpoints of the right SP / the persisted pair'",
   text="Seeded search over SSO, callback and logout replies for SPs with 1–4 ACS and 0–3 SLO entries whose URLs carry query strings and metacharacters; requests name foreign consumer URLs, indices, bindings, destinations and extra parameters; SP re-registration (moved ACS/SLO URLs, reordered entries) races the flows. The pair handed to CreateAuthRequest must be one registered entry; callback replies must use exactly the stored pair; error and logout replies must target a registered URL or nothing; no target may come from the request.",
   ref="§5 C02", note="Which registered entry is selected is C16 (not applicable here); only membership and pair consistency are checked. URL equality is modulo one level of percent-encoding (html/template normalises the form action)."),
 "C03": dict(level="exploration", tech="deterministic simulation: whole SSO→login→callback flows for interleaved sessions under a simulated clock (exact instants, jumps, advance while a request is parked), per-run provider configuration; independently parsed assertion compared field by field with the storage record handed to that task",
   text="Seeded search over flows in both bindings with stored-request and user fields drawn from XML-legal alphabets (metacharacters, CR/LF/TAB, blanks, non-BMP), several sessions in flight, replica switches and key rotation. Every Success reply is decoded by an independent HTML/redirect/XML reader and compared with the snapshot, user and entity the simulated storage returned to that very request; the validity window is checked against the simulated-time interval of the call (exact when the clock did not move).",
   ref="§5 C03", note="Issuer is compared with the simulator's configuration model of the entity ID (C11 checks that model against served metadata). Attribute order is compared as a multiset because the library iterates a map."),
 "C04": dict(level="exploration", tech="deterministic simulation: every signed artefact received by a simulated SP (callback POST/Redirect, attribute-query response, signed metadata) is verified by an independent exclusive-C14N/XML-DSig and HTTP-Redirect-signature verifier under the key version the storage handed to the signing request, across key rotation and interleaving",
   text="Seeded search; the verifying party is a different implementation than the signer, trusts the certificate of the key version current for that request, and checks the raw query string actually sent. Strings reaching signed content are workload (sampled), which is the thin part of this property for a simulator; an unsigned Success assertion reaching any party is a violation.",
   ref="§5 C04", note="Known finding: content needing canonical escaping breaks enveloped signatures (dependency amdonov/xmlsig); plain content is still verified."),
 "C05": dict(level="exploration", tech="deterministic simulation: a conformant SP signs, a network attacker tampers in flight (bit flips, field edits after signing, signature stripping/wrapping, binding moves, algorithm and KeyInfo substitution, foreign keys), SP key rotation and requirement changes are interleaved; history invariant 'accepted ⊆ validly signed' decided by an independent verifier at the storage persist call",
   text="Seeded search over SSO requests × signing-requirement matrix (SP AuthnRequestsSigned absent/false/0/true/1 × IdP WantAuthRequestsSigned ''/false/true/1 × certificate 0/1) × hostile in-flight operators (up to 3 per message), with SP re-registration (key rotation, requirement flips) racing the request. 'Accepted' is the successful CreateAuthRequest call; for each one the submitted bytes are re-verified by independent XML-DSig / redirect-signature verifiers under the certificate registered when the SP was looked up.",
   ref="§5 C05", note="Known finding: an embedded ds:Signature in a Redirect-binding message is ignored. A receiver that re-encodes decoded query values is treated as verifying the same content."),
 "C06": dict(level="exploration", tech="deterministic simulation: requests deviating from conformance in exactly the listed ways, stamped by SP clocks with skew and delivered by the browser at instants aimed at NotBefore/NotOnOrAfter (±1ns/µs/s) under the simulated clock; independent evaluator of the necessary conditions at the simulated-time interval of the accepting request",
   text="Seeded search; only the implication accepted ⇒ valid is checked (the converse is C07). The evaluator decodes the submitted bytes itself (base64, DEFLATE, strict XML reader), checks Issuer against the registry snapshot the request saw, Destination against the advertised location for the request host, and the Conditions window against [t_invoke, t_return] of the simulated clock.",
   ref="§5 C06", note="Known findings: three leniencies of Go's encoding/xml (duplicate attributes, undeclared prefixes, content outside the root element) are accepted although not well-formed."),
 "C07": dict(level="exploration", tech="deterministic simulation, fault-free configuration plus post-fault recovery phase: a conformant SP generator (string templates, all serialisation freedoms, both bindings, SOAP, rsa-sha1/sha256, percent-encoding styles, KeyInfo layouts) drives the real handlers; bounded-progress oracle (accepted within its own request)",
   text="Seeded search over conformant AuthnRequests, LogoutRequests and AttributeQueries of registered SPs with no fault active; each must be accepted within its own request (persist + 303, LogoutResponse Success, SOAP Response Success). The same oracle runs as the recovery phase after faulty runs of other families.",
   ref="§5 C07", note="Known findings: lower-case percent-encoding in signed redirect requests and signed AttributeQueries are refused."),
 "C08": dict(level="exploration", tech="deterministic simulation: seeded SSO requests (conformant, deviating at each validation step, tampered, duplicated) against SP registrations with unsupported bindings, storage/body/writer fault injection, per-request persist count vs. independently decoded reply shape",
   text="Seeded search over SSO executions: per request the number of successful persists recorded by the simulated storage is compared with the shape of the single reply as decoded by an independent HTML/XML/redirect reader (303 to the login URL of the returned id, or exactly one non-Success Response / plain HTTP error; never empty, never several messages), under persist failures, body-read faults, duplicated submissions, SP re-registration (also to unsupported bindings) and interleaving with other requests; from the registry model: never persisted while every consumer endpoint registered for the issuer uses an unsupported binding.",
   ref="§5 C08", note="Trusts the simulator's storage (persist = successful CreateAuthRequest) and the independent reply decoders; writer-fault runs judge the persist count only."),
 "C09": dict(level="exploration", tech="deterministic simulation with corruption as the fault: complete single-structural-edit sweep of every base message and of stored SP metadata, sampled multi-edit / byte-level / torn-body / raw requests, non-RSA and garbled certificates, every SigAlg URI against every key type, all under storage faults; recover() around every handler task and every SP registration",
   text="Stage 1 sweeps every single deletion / duplication / emptying of each element and attribute of 7 base messages (incl. the SOAP envelope and enveloped signatures) and of the metadata of 2 SPs; stage 2 samples random worlds (corrupted stored SP metadata, deviating / tampered / raw requests with up to 3 edits, torn bodies, failing writers) under storage faults, because a fault changes which fields are nil later. Any panic in a handler goroutine or in NewServiceProvider is a violation keyed by endpoint and enclosing function.",
   ref="§5 C09", note="Coverage-guided fuzzing of the decoders (named in the property's quantifier) is outside this technique family and not done; byte-level damage is sampled."),
 "C10": dict(level="fault_enumeration", tech="deterministic simulation with exhaustive single- and pair-fault injection at every storage call of every endpoint workload (with a concurrent bystander request), followed by seeded random fault schedules and a post-fault recovery phase",
   text="Stage 1 enumerates completely, for a fixed catalogue (4 provider configurations × 14 workloads × 9 settings: no / callback / metadata bystander, warm-up by an earlier callback / metadata request, and callback / metadata bystander aligned with — or run through — its own call of the very operation the fault hits), every storage call × every fault kind the property names (error, as a single fault in six values: plain, context.Canceled, wrapped DeadlineExceeded, wrapped sql.ErrNoRows, io.ErrUnexpectedEOF, a driver text with markup, control and Latin-1 bytes; for the key getters nil record, key without certificate, certificate without key, empty certificate; unusable algorithm as configuration), singly and in all pairs; stage 2 samples random worlds and fault schedules. Each faulted request must end in HTTP 5xx or a non-Success SAML message without subject, attribute, signature or user marker, without panic and without later persistence; the bystander's reply must equal its fault-free reply and a request that met no failing call must not crash while another request's call fails; afterwards a recovery flow must succeed.",
   ref="§5 C10", note="The enumeration is complete for the catalogue only; arbitrary configurations are sampled. Trusts the simulator's fault injector and reply decoders."),
 "C11": dict(level="exploration", tech="deterministic simulation: per-run random provider configuration and request hosts; a simulated SP bootstraps itself from the metadata document served earlier in the same run (entityID, endpoint locations, signing certificate, WantAuthnRequestsSigned), addresses requests to the advertised locations and compares every later reply and the certificate endpoint with what was advertised, across key rotation",
   text="Seeded search over issuer modes (static with/without path and trailing slash, Host-, Forwarded- and custom-header-derived), endpoint configurations (default, custom path with/without leading slash, external URL), metadata path, WantAuthRequestsSigned values and request hosts. Agreement is checked between independently observed things: served entityID vs. Issuer of every protocol reply for the same host, advertised location vs. the handler that answers there, advertised certificate vs. certificate endpoint vs. key version in use, advertised WantAuthnRequestsSigned vs. whether unsigned conformant requests are refused.",
   ref="§5 C11", note="Endpoints configured by external URL are not probed (no statement about routing). The signing key version is read from the storage call the request made."),
 "C12": dict(level="exploration", tech="deterministic simulation: SOAP attribute queries from registered / unregistered / tampering requesters under storage faults and key rotation between the handler's two key reads; disclosure invariant over the recorded history plus an independent filter model",
   text="Seeded search; a reply that carries any attribute value or per-user marker must have a registered Issuer, no non-verifying signature value, and an absent or advertised Destination; then InResponseTo, audience, subject resolution and the (Name, NameFormat) filter are compared, as sets, with an independent model of the user record, and the assertion must carry exactly one enveloped signature referencing its ID.",
   ref="§5 C12", note="Whether the assertion signature verifies is C04's question. Signed queries are always refused on the current tree (known finding under C07), so the positive signature branch is not reachable."),
 "C13": dict(level="exploration", tech="deterministic simulation: LogoutRequests stamped by skewed SP clocks and delivered at instants aimed at IssueInstant / NotOnOrAfter under the simulated clock, SP re-registration / deletion racing the request's storage call; independent evaluator + delivery-target invariant",
   text="Seeded search over logout requests (registered / unregistered / absent issuer, lexical forms of timestamps, both transport encodings, hard RelayState) and SP registrations with 0..n SingleLogoutService entries. Success implies decodable, registered issuer (in the snapshot the request saw), IssueInstant <= t_return and NotOnOrAfter > t_invoke; decodable implies InResponseTo echo; Issuer, target (first registered location or body), Destination and RelayState are compared with the snapshot.",
   ref="§5 C13", note="Known findings: encoding/xml leniencies (not well-formed requests answered with Success) and CR normalisation of RelayState in the HTML form."),
 "C15": dict(level="exploration", tech="deterministic simulation: seeded interleavings of 2–8 concurrent requests on all endpoints parked at every storage / body / writer seam; scheduler-chosen overlap windows run under the Go race detector (go test -race); per-entity marker noninterference oracle, reference-model oracle (every undisturbed reply is compared with the reply of a freshly built provider instance to the same request at the same simulated instant over the same storage contents), shared-state hash probe, ID multiset; plus an ID stage with the real randomness source",
   text="Seeded search over schedules: every session, user, SP and host carries a unique marker and a reply may contain only markers that occurred in its own request or in a storage record handed to that very request (no other session's request ID, RelayState, consumer URL, audience, issuer host or user attributes). Every reply of a request whose life saw one storage state, no fault and no clock move is also compared (modulo ids, signature values and custom-attribute order) with a shadow re-execution of the same request bytes on a fresh provider instance: a difference means the reply depended on an earlier or a concurrent request. Half of the workers run the race-detector build and resume chosen pairs of tasks without an ordering edge, so conflicting unsynchronised accesses in those segments are reported. All response / assertion / metadata IDs of a run must be pairwise distinct NCNames; a separate stage draws 2·10^5 (thorough: 2·10^6) IDs from 16 goroutines with the real crypto/rand source.",
   ref="§5 C15", note="Instruction-level interleaving inside an overlap window is not controlled by the simulator (Go offers no seam); which segments overlap is a plan decision and replays. The shared-state hash is a probe, not a violation."),
}

NOT_APPLICABLE = {
 "C14": "resource bound of one pure decoding call on one input; Go offers no allocator/memory seam to simulate and nothing in it depends on a schedule, clock, fault or history (DESIGN.md §6)",
 "C16": "pure function of an ACS list and a string; exhaustive enumeration of lists is bounded model checking, not simulation; the end-to-end consequence (persisted pair is a registered entry) is covered under C02 (DESIGN.md §6)",
 "C17": "pure rendering function of three strings; no schedule, clock, fault or second party (DESIGN.md §6)",
 "C18": "pure codec identities over byte strings; outside the family (DESIGN.md §6)",
 "C19": "pure functions of a configuration string and request headers (DESIGN.md §6)",
 "C20": "pure single-threaded composition of closures; enumeration of step programs is model checking / property testing (DESIGN.md §6)",
}

ALL = ["C%02d" % i for i in range(1, 21)]

def main():
    checks = []
    for pid in ALL:
        if pid not in CLAIMED:
            continue
        c = CLAIMED[pid]
        checks.append({
            "property_id": pid,
            "quick_cmd": "bin/check %s quick" % pid,
            "thorough_cmd": "bin/check %s thorough" % pid,
            "evidence_file": "/verif/evidence/%s.json" % pid,
            "replay_cmd_template": "bin/check --replay {path}",
            "engine": "sim",
            "level_claimed": {"category": c["level"], "text": c["text"], "design_ref": c["ref"]},
            "level_note": c["note"],
            "technique": c["tech"],
        })
    na = []
    for pid in ALL:
        if pid in CLAIMED:
            continue
        na.append({"property_id": pid, "reason": NOT_APPLICABLE.get(pid, "check not built yet in this session (planned, see DESIGN.md §5); not claimed until it exists")})
    m = {
        "version": 1,
        "setup_cmd": "bin/setup",
        "hooks": {
            "guard": "verif",
            "enable": "no hook exists: the clock seam is testing/synctest (go1.26.8), scheduling and fault seams are the repository's own Storage / http.ResponseWriter / request Body interfaces, ids use google/uuid's SetRand; the 'verif' build tag is reserved and guards nothing",
            "baseline_off_cmd": BASELINE_OFF,
            "source_commits": [],
            "add_only": True,
        },
        "engines": [{"name": "sim", "path": "/verif/sim", "serves_properties": sorted(CLAIMED), "kind_free_text": "deterministic whole-system simulator (Go, testing/synctest + pgregory.net/rapid): real IdP handlers, simulated storage / SPs / browser / attacker / clock, seeded scheduler and fault injector, independent oracles, replay files"}],
        "checks": checks,
        "not_applicable": na,
        "notes": "bin/check <id> quick|thorough honours VERIF_SEED and VERIF_TIER, rebuilds the simulator against /repo's working tree, exits 0/1/2 (2 = build, harness, watchdog or replay-mismatch trouble, never a violation). Known findings live in /verif/known_findings.json.",
    }
    json.dump(m, open("/verif/MANIFEST.json", "w"), indent=1)
    print("wrote MANIFEST.json with", len(checks), "checks,", len(na), "not applicable")

main()
