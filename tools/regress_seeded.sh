#!/bin/bash
# tools/regress_seeded.sh [id-glob]   — re-runs, for every seeded change under /verif/seeded (or those matching the glob), the check and tier
# recorded in its meta.json against a scratch worktree carrying the change, and reports whether the recorded finding key (or any
# violation) is still reported. /repo itself is never touched. One line per change; exit 1 if any change is no longer detected.
ROOT="$(cd "$(dirname "${BASH_SOURCE[0]}")/.." && pwd)"
glob="${1:-*}"
miss=0
for d in $ROOT/seeded/$glob/; do
  [ -f $d/meta.json ] || continue
  id=$(basename $d)
  read check tier key < <(python3 -c "import json;m=json.load(open('$d/meta.json'));x=m['detected_by'];print(x['check'],x['tier'],x['finding_key'])")
  if [ "$check" = "none" ]; then echo "$id not-detected-yet (recorded as a limit)"; continue; fi
  s=$(date +%s)
  # first attempt with a short budget (REGRESS_BUDGET, default: the tier's own), a second one with the full budget if that misses
  r=$(MUT_WORKTREE=1 VERIF_BUDGET=${REGRESS_BUDGET:-} $ROOT/tools/runmutant.sh $d/patch.diff $tier $check 2>&1 | tail -1)
  case "$r" in *"exit=1 "*) ;; *) [ -n "${REGRESS_BUDGET:-}" ] && r=$(MUT_WORKTREE=1 $ROOT/tools/runmutant.sh $d/patch.diff $tier $check 2>&1 | tail -1)" (second attempt, full budget)" ;; esac
  e=$(( $(date +%s) - s ))
  case "$r" in
    *"exit=1 "*) st=detected ;;
    *) st=MISSED; miss=$((miss+1)) ;;
  esac
  same=""; case "$r" in *"$key"*) same="same-key" ;; esac
  echo "$id $st $same ${e}s | $r"
done
echo "missed=$miss"
[ $miss -eq 0 ]
