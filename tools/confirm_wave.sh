#!/bin/bash
# tools/confirm_wave.sh <prefix> <pid> ...  — confirms every seeded change /tmp/<prefix>-<pid>/m*/ (one parallel stream per property); writes /tmp/<prefix>-<pid>/confirm.txt
ROOT="$(cd "$(dirname "${BASH_SOURCE[0]}")/.." && pwd)"
prefix="$1"; shift
for p in "$@"; do
  (
    : > /tmp/$prefix-$p/confirm.txt
    for d in /tmp/$prefix-$p/m*/; do
      m=$(basename $d); [ -f $d/patch.diff ] || continue
      wt=/tmp/wt-confirm-$p-$$
      git -C /repo worktree add -q --detach $wt HEAD
      c=$($ROOT/tools/confirm_mutant.sh $wt $d 2>&1 | grep -A8 RESULT | head -12)
      git -C /repo worktree remove --force $wt
      echo "$p $m | $c" >> /tmp/$prefix-$p/confirm.txt
    done
  ) &
done
wait
git -C /repo worktree prune
cat /tmp/$prefix-*/confirm.txt
