package sim

// The simulated world: IdP replicas running the real handlers, a storage with
// real semantics owned by the simulator, a scheduler that parks every handler
// task at every seam and resumes exactly the one the plan names, a simulated
// clock (testing/synctest), and the recorded history.

import (
	"bytes"
	"context"
	"crypto/sha256"
	"database/sql"
	"encoding/hex"
	"errors"
	"fmt"
	"io"
	"log"
	"math/rand/v2"
	"net/http"
	"runtime"
	"runtime/debug"
	"sort"
	"strings"
	"sync"
	"sync/atomic"
	"testing"
	"testing/synctest"
	"time"

	"github.com/google/uuid"
	"github.com/zitadel/logging"

	"github.com/zitadel/saml/pkg/provider"
	"github.com/zitadel/saml/pkg/provider/key"
	"github.com/zitadel/saml/pkg/provider/models"
	"github.com/zitadel/saml/pkg/provider/serviceprovider"
	"github.com/zitadel/saml/pkg/provider/xml/md"
	"github.com/zitadel/saml/pkg/provider/xml/samlp"
)

// ---------------------------------------------------------------------------
// history

type Event struct {
	Seq    int
	T      int64 // simulated unix nanoseconds
	Kind   string
	Task   int
	Detail string
}

type History struct {
	mu     sync.Mutex
	Events []Event
}

func (h *History) add(kind string, task int, detail string) int {
	h.mu.Lock()
	defer h.mu.Unlock()
	seq := len(h.Events)
	h.Events = append(h.Events, Event{Seq: seq, T: time.Now().UnixNano(), Kind: kind, Task: task, Detail: detail})
	return seq
}

func (h *History) Digest() string {
	hh := sha256.New()
	for _, e := range h.Events {
		fmt.Fprintf(hh, "%d|%d|%s|%d|%s\n", e.Seq, e.T, e.Kind, e.Task, e.Detail)
	}
	return "sha256:" + hex.EncodeToString(hh.Sum(nil))
}

// ---------------------------------------------------------------------------
// storage records

type Session struct {
	Idx           int
	ID            string
	AuthRequestID string
	RelayState    string
	ACS           string
	Binding       string
	AppID         string
	Issuer        string
	Destination   string
	DoneFlag      bool
	UserID        string
	Deleted       bool
	CreatedBy     int         // task id, -1 preseeded
	States        []sessState // every (done, user) state the request has been in, with the history position at which it began
	Tenant        string      // storage flavour TenantSessions: the issuer value of the context the request was persisted under ("" = every tenant)
	SP            int         // SP index resolved from AppID at creation (-2 unknown)
	Version       int
}

// sessState: the stored request was in state (Done, User) from history position Seq on.
type sessState struct {
	Seq  int
	Done bool
	User string
}

// AuthReqSnap is the immutable snapshot handed to a handler — or, with storage flavour LiveRecords, a live view whose
// Done() and GetUserID() read the stored request as it is when they are called.
type AuthReqSnap struct {
	s    Session
	live *Session
	w    *World
}

func (a *AuthReqSnap) GetID() string                       { return a.s.ID }
func (a *AuthReqSnap) GetApplicationID() string            { return a.s.AppID }
func (a *AuthReqSnap) GetRelayState() string               { return a.s.RelayState }
func (a *AuthReqSnap) GetAccessConsumerServiceURL() string { return a.s.ACS }
func (a *AuthReqSnap) GetBindingType() string              { return a.s.Binding }
func (a *AuthReqSnap) GetAuthRequestID() string            { return a.s.AuthRequestID }
func (a *AuthReqSnap) GetIssuer() string                   { return a.s.Issuer }
func (a *AuthReqSnap) GetDestination() string              { return a.s.Destination }
func (a *AuthReqSnap) GetUserID() string {
	if a.live != nil {
		a.w.mu.Lock()
		defer a.w.mu.Unlock()
		return a.live.UserID
	}
	return a.s.UserID
}
func (a *AuthReqSnap) Done() bool {
	if a.live != nil {
		a.w.mu.Lock()
		defer a.w.mu.Unlock()
		return a.live.DoneFlag
	}
	return a.s.DoneFlag
}

// noteState records the (done, user) state a stored request is in from now on. Caller holds w.mu.
func (w *World) noteState(se *Session) {
	w.hist.mu.Lock()
	seq := len(w.hist.Events)
	w.hist.mu.Unlock()
	se.States = append(se.States, sessState{Seq: seq, Done: se.DoneFlag, User: se.UserID})
}

var _ models.AuthRequestInt = (*AuthReqSnap)(nil)

// SPNode is the runtime state of one simulated service provider.
type SPNode struct {
	Idx        int // -1 rogue
	Cfg        SPCfg
	Version    int
	Registered bool
	Deleted    bool
	MetaXML    []byte
	Obj        *serviceprovider.ServiceProvider
	RegErr     string
	RegPanic   string
	SignLog    []SignRec
	History    []SPCfg // configuration per version
}

// SignRec is one thing the SP's conformant signer signed.
type SignRec struct {
	Binding  string // redirect | post | soap
	Octets   string // redirect: the signed octet string; post/soap: the exact document text
	Relay    string
	HasRelay bool
	Alg      string
	Key      int
	Task     int
}

type CallRec struct {
	Seq       int
	Op        string
	Args      []string
	Fault     string
	Err       string
	Ret       string
	Snap      *Session // snapshot returned (AuthRequestByID / CreateAuthRequest)
	SPIdx     int      // SP returned by GetEntityByID (-2 none)
	SPVer     int
	SPCfg     *SPCfg
	KeyVer    int
	CtxIssuer string // the issuer value of the context the library passed to this call (what a multi-tenant storage selects its tenant by)
	UserIdx   int
	T         time.Time
	Abandond  bool
	// CreateAuthRequest only: the registration of the persisted request's issuer at the moment of the persist (registry model)
	IssuerSP    int // -2: no such registration
	IssuerSPVer int
	IssuerSPCfg *SPCfg
}

// task states
const (
	tsRunning = iota
	tsParked
	tsDone
)

type resumeCmd struct{ fault string }

// st derives the scheduling state; w.mu must be held.
func (t *Task) st() int {
	switch {
	case t.resuming:
		return tsRunning
	case t.strandsParked > 0:
		return tsParked // also when the handler has returned: a strand the library left behind still has to run
	case t.handlerDone:
		return tsDone
	}
	return tsRunning
}

type Task struct {
	ID      int
	Msg     *MsgSpec
	Sent    *Sent
	Replica int
	RepGen  int
	w       *World
	// scheduling state (guarded by w.mu): a task is its handler goroutine plus whatever goroutines the library starts on its
	// behalf with the request context; each of them ("strand") may park at a seam
	resuming      bool // a resume command has been handed over and not yet taken
	strandsParked int
	handlerDone   bool
	parkedOp      string
	cancel        context.CancelFunc
	Cancelled     bool      // the client went away (request context cancelled) while the request was in flight
	Dep0          string    // World.depStamp when the request was sent
	TWrite        time.Time // simulated instant of the first WriteHeader / Write of the reply (zero: nothing written)
	// the entity registered for the application of the stored request this callback read, when no storage mutation happened
	// during the whole life of the request (what the Audience must be even if the library answered from a cache of its own)
	StableAudience    string
	HasStableAudience bool
	resume            chan resumeCmd
	done              chan struct{}

	Calls                    []CallRec
	Panic                    string
	PanicStack               string
	PanicFunc                string
	Abandoned                bool
	TInvoke                  time.Time
	TReturn                  time.Time
	SeqInvoke                int
	SeqReturn                int
	Writer                   *RecWriter
	Reply                    *Reply
	FaultFired               []string // failure-type faults injected into this task (not stalls)
	Overlapped               bool     // ran in an overlap window (race mode)
	Recovery                 bool
	Conformant               bool  // generated without any deviation, tamper or fault
	InFaultEra               bool  // sent before Heal
	AdvDuring                bool  // clock advanced while this task was in flight
	SPVers0                  []int // registration version of every SP at invoke
	RespKeyVer0, RespKeyVer1 int   // response signing key version current at invoke / at return
	MetaKeyVer0, MetaKeyVer1 int
}

type taskKey struct{}

func taskFrom(ctx context.Context) *Task {
	t, _ := ctx.Value(taskKey{}).(*Task)
	return t
}

func (t *Task) park(op string) string {
	if t == nil {
		return ""
	}
	t.w.hist.add("park", t.ID, op)
	t.w.mu.Lock()
	t.strandsParked++
	t.parkedOp = op
	t.w.mu.Unlock()
	cmd := <-t.resume
	t.w.mu.Lock()
	t.strandsParked--
	t.resuming = false
	if t.strandsParked == 0 {
		t.parkedOp = ""
	}
	t.w.mu.Unlock()
	return cmd.fault
}

// ---------------------------------------------------------------------------
// recording response writer and request body

type RecWriter struct {
	task        *Task
	hdr         http.Header
	status      int
	wroteHeader bool
	extraHeader int
	body        bytes.Buffer
	failAt      int
	faultFired  bool
	parkedOnce  bool
	snapHdr     http.Header
}

func (w *RecWriter) Header() http.Header { return w.hdr }

func (w *RecWriter) WriteHeader(code int) {
	if w.wroteHeader {
		w.extraHeader++
		return
	}
	w.wroteHeader = true
	w.task.TWrite = time.Now() // the instant the reply starts to leave the IdP (simulated clock)
	w.status = code
	w.snapHdr = w.hdr.Clone()
}

func (w *RecWriter) Write(b []byte) (int, error) {
	if !w.wroteHeader {
		w.WriteHeader(http.StatusOK)
	}
	if w.task.w.cfg.ParkWrites && !w.parkedOnce {
		w.parkedOnce = true
		w.task.park("write")
	}
	if w.failAt >= 0 && w.body.Len()+len(b) > w.failAt {
		n := w.failAt - w.body.Len()
		if n < 0 {
			n = 0
		}
		w.body.Write(b[:n])
		if !w.faultFired {
			w.faultFired = true
			w.task.w.fire("writer_error_at")
			w.task.FaultFired = append(w.task.FaultFired, "writer_error_at")
		}
		return n, errors.New("sim: write: connection reset by peer")
	}
	return w.body.Write(b)
}

type simBody struct {
	task       *Task
	data       []byte
	off        int
	fault      string
	faultOff   int
	parkedOnce bool
	fired      bool
}

func (b *simBody) Close() error { return nil }

// splitAt: where a "split" body is cut. Even offsets choose one of the '&' of a form body (so that whole parameters travel in
// the second segment), odd ones any byte.
func (b *simBody) splitAt() int {
	if len(b.data) < 2 {
		return len(b.data)
	}
	if b.faultOff%2 == 0 {
		var amps []int
		for i, c := range b.data {
			if c == '&' {
				amps = append(amps, i)
			}
		}
		if len(amps) > 0 {
			return amps[(b.faultOff/2)%len(amps)]
		}
	}
	return 1 + b.faultOff%(len(b.data)-1)
}

func (b *simBody) Read(p []byte) (int, error) {
	if b.task.w.cfg.ParkBody && !b.parkedOnce {
		b.parkedOnce = true
		b.task.park("body")
	}
	if len(p) == 0 {
		return 0, nil
	}
	limit := len(b.data)
	switch b.fault {
	case "short":
		k := b.faultOff%7 + 1
		if len(p) > k {
			p = p[:k]
			if !b.fired {
				b.fired = true
				b.task.w.fire("body_short_reads")
			}
		}
	case "split":
		// the body arrives in two TCP segments; the cut is either at a parameter boundary or anywhere
		cut := b.splitAt()
		if b.off < cut && b.off+len(p) > cut {
			p = p[:cut-b.off]
			if !b.fired {
				b.fired = true
				b.task.w.fire("body_split")
			}
		}
	case "err", "eof":
		if b.faultOff < limit {
			limit = b.faultOff
		}
	}
	if b.off >= limit {
		switch b.fault {
		case "err":
			if !b.fired {
				b.fired = true
				b.task.w.fire("body_error_at")
				b.task.FaultFired = append(b.task.FaultFired, "body_error_at")
			}
			return 0, errors.New("sim: read: connection reset by peer")
		case "eof":
			if limit < len(b.data) {
				if !b.fired {
					b.fired = true
					b.task.w.fire("body_eof_at")
					b.task.FaultFired = append(b.task.FaultFired, "body_eof_at")
				}
				return 0, io.ErrUnexpectedEOF
			}
		}
		return 0, io.EOF
	}
	n := copy(p, b.data[b.off:limit])
	b.off += n
	return n, nil
}

// ---------------------------------------------------------------------------
// world

type Replica struct {
	Prov *provider.Provider
	Gen  int
	Err  string
}

type World struct {
	t    *testing.T
	plan *Plan
	cfg  WorldCfg
	mode string

	mu       sync.Mutex // guards harness state touched by tasks (race mode runs two tasks at once)
	hist     *History
	replicas []*Replica
	tasks    []*Task
	sps      []*SPNode // registered SPs by index
	rogue    *SPNode
	sessions []*Session
	byEntity map[string]*SPNode
	appToEnt map[string]string

	userVals   [][][]string // user → custom attribute → values as held by the storage
	respKeyVer int
	// respKeyTorn: a half-finished rotation of the response signing key record — the storage already holds the next version's
	// certificate next to the current version's private key (mutation tearKey; the next rotateKey, or heal, completes it)
	respKeyTorn bool
	metaKeyVer  int
	healthy     bool

	healed       bool
	Fired        map[string]int
	Probes       map[string]int
	NoOps        int
	SimStart     time.Time
	SimEnd       time.Time
	uuidSrc      *uuidReader
	Violations   []ViolationRec
	constructed  bool
	ConstructErr string
	IDPModel     *IDPModel

	regSeq        int  // bumped whenever the service-provider registry or the application → entity map changes
	shadowRunning int  // shadow executions (shadow.go) that have not returned yet
	inShadow      bool // fault / probe counters are not touched by a shadow execution
	shadowUUID    *uuidReader

	sharedBase    string // structural hash of the replicas' providers right after construction / restart
	SharedChanged string // first step after which the hash differed
}

func (w *World) fire(kind string) {
	w.mu.Lock()
	if !w.inShadow {
		w.Fired[kind]++
	}
	w.mu.Unlock()
}

func (w *World) probe(name string) {
	w.mu.Lock()
	if !w.inShadow {
		w.Probes[name]++
	}
	w.mu.Unlock()
}

type uuidReader struct {
	mu       sync.Mutex
	rng      *rand.ChaCha8
	failLeft int // the next failLeft reads fail (the system's random source is unavailable)
	failed   int
}

var errNoEntropy = errors.New("sim: random source unavailable")

func (u *uuidReader) Read(p []byte) (int, error) {
	u.mu.Lock()
	defer u.mu.Unlock()
	if u.failLeft > 0 {
		u.failLeft--
		u.failed++
		return 0, errNoEntropy
	}
	return u.rng.Read(p)
}

func silenceLogs() {
	logging.SetOutput(io.Discard)
	log.SetOutput(io.Discard)
}

// Result is everything a run produced.
type Result struct {
	Plan       *Plan
	World      *World
	Tasks      []*Task
	Digest     string
	Violations []ViolationRec
	Fired      map[string]int
	Probes     map[string]int
	SimNs      int64
	Steps      int
	NoOps      int
	SchedSig   string
	OutcomeSig string
	HarnessErr string
}

// Run executes a plan inside a synctest bubble and evaluates the oracles armed for plan.Property.
func Run(t *testing.T, plan *Plan) (res *Result) {
	silenceLogs()
	// sync.Pool contents (in the library or its dependencies) survive from one simulated run to the next and are dropped by
	// the garbage collector at instants the simulator does not control. Two collections empty every pool before a run and no
	// collection happens during it, so that pool reuse inside a run is a function of the plan.
	oldGC := debug.SetGCPercent(-1)
	runtime.GC()
	runtime.GC()
	defer debug.SetGCPercent(oldGC)
	res = &Result{Plan: plan}
	startRealTick()
	func() {
		defer func() {
			// synctest panics on a deadlocked bubble; that is a harness error, never a violation.
			if r := recover(); r != nil {
				res.HarnessErr = fmt.Sprintf("bubble panic: %v\n%s", r, debug.Stack())
			}
		}()
		synctest.Test(t, func(t *testing.T) {
			w := newWorld(t, plan)
			res.World = w
			w.run()
			res.Tasks = w.tasks
			res.Digest = w.hist.Digest()
			res.Fired = w.Fired
			res.Probes = w.Probes
			res.SimNs = w.SimEnd.Sub(w.SimStart).Nanoseconds()
			res.NoOps = w.NoOps
			res.Steps = len(plan.Steps)
		})
	}()
	if res.HarnessErr != "" {
		return res
	}
	evaluate(res)
	return res
}

func newWorld(t *testing.T, plan *Plan) *World {
	w := &World{t: t, plan: plan, cfg: plan.World, mode: plan.Mode, hist: &History{},
		byEntity: map[string]*SPNode{}, appToEnt: map[string]string{}, healthy: true,
		Fired: map[string]int{}, Probes: map[string]int{}}
	if w.cfg.Replicas < 1 {
		w.cfg.Replicas = 1
	}
	// users with a large attribute are expanded here, on a copy: the plan (and a replay file written from it) keeps the short form
	users := make([]UserCfg, len(w.cfg.Users))
	copy(users, w.cfg.Users)
	for i := range users {
		if users[i].BigN > 0 {
			ca := CustomAttrCfg{Name: "groups-" + userMarker(i), Friendly: "memberOf"}
			for k := 0; k < users[i].BigN; k++ {
				h := sha256.Sum256([]byte(fmt.Sprintf("%s/%d", userMarker(i), k)))
				ca.Values = append(ca.Values, "cn="+hex.EncodeToString(h[:14])+","+userMarker(i))
			}
			users[i].Custom = append(append([]CustomAttrCfg(nil), users[i].Custom...), ca)
		}
	}
	w.cfg.Users = users
	// the storage's own copy of the multi-valued attributes (flavour OwnSlices hands these very slices to the library; the
	// oracles always compare with the registered values in cfg.Users)
	for i := range users {
		var vs [][]string
		for _, c := range users[i].Custom {
			vs = append(vs, append([]string(nil), c.Values...))
		}
		w.userVals = append(w.userVals, vs)
	}
	var seed [32]byte
	for i := 0; i < 8; i++ {
		seed[i] = byte(w.cfg.UUIDKey >> (8 * i))
	}
	w.uuidSrc = &uuidReader{rng: rand.NewChaCha8(seed)}
	seed[31] ^= 0x5a
	w.shadowUUID = &uuidReader{rng: rand.NewChaCha8(seed)}
	if w.cfg.RealUUID {
		uuid.SetRand(nil)
	} else {
		uuid.SetRand(w.uuidSrc)
	}
	return w
}

func (w *World) now() time.Time { return time.Now() }

// depStamp summarises every piece of storage state the reply to t's request can depend on: the registry, the key versions,
// health, and the stored requests the request names. A request whose stamp is the same when it is sent and when it has been
// answered saw one storage state for its whole life — whichever calls it made, or did not make because the library
// answered from a memory of its own.
func (w *World) depStamp(t *Task) string {
	w.mu.Lock()
	defer w.mu.Unlock()
	var sb strings.Builder
	fmt.Fprintf(&sb, "reg%d resp%d torn=%v meta%d healthy=%v healed=%v", w.regSeq, w.respKeyVer, w.respKeyTorn, w.metaKeyVer, w.healthy, w.healed)
	if t.Sent != nil {
		ids := append([]string{t.Sent.CallbackID}, t.Sent.CallbackIDs...)
		for _, id := range ids {
			if id == "" {
				continue
			}
			found := "absent"
			for _, se := range w.sessions {
				if se.ID == id && !se.Deleted {
					found = fmt.Sprintf("s%d.v%d.done=%v.user=%s", se.Idx, se.Version, se.DoneFlag, se.UserID)
				}
			}
			sb.WriteString(" " + found)
		}
	}
	return sb.String()
}

func loginURLFor(spIdx int) func(string) string {
	return func(id string) string {
		return fmt.Sprintf("https://login.example/ui/sp%d?authRequestID=%s", spIdx, id)
	}
}

// register (re)builds the stored ServiceProvider from the SP's current configuration with the real constructor.
func (w *World) register(n *SPNode) {
	n.MetaXML = []byte(BuildSPMetadata(&n.Cfg))
	if n.Cfg.Corrupt != nil {
		n.MetaXML = applyCorrupt(n.MetaXML, n.Cfg.Corrupt)
		w.fire("sp_metadata_corrupt")
	}
	n.History = append(n.History, n.Cfg)
	n.Obj, n.RegErr, n.RegPanic = nil, "", ""
	func() {
		defer func() {
			if r := recover(); r != nil {
				n.RegPanic = fmt.Sprintf("%v", r)
				w.hist.add("register-panic", -1, fmt.Sprintf("sp%d %v", n.Idx, r))
				st := string(debug.Stack())
				w.Violations = append(w.Violations, ViolationRec{Rule: "C09.register-panic",
					Key:      "C09:register:panic:" + firstRepoFunc(st),
					Expected: "NewServiceProvider returns a ServiceProvider or an error",
					Observed: fmt.Sprintf("panic: %v", r), Task: -1})
			}
		}()
		obj, err := serviceprovider.NewServiceProvider(n.Cfg.AppID, &serviceprovider.Config{Metadata: n.MetaXML}, loginURLFor(n.Idx))
		if err != nil {
			n.RegErr = err.Error()
			return
		}
		n.Obj = obj
	}()
	w.hist.add("register", -1, fmt.Sprintf("sp%d v%d err=%q panic=%q", n.Idx, n.Version, n.RegErr, n.RegPanic))
	if n.Obj != nil && n.Idx >= 0 {
		n.Registered = true
		w.byEntity[n.Cfg.Entity] = n
		w.appToEnt[n.Cfg.AppID] = n.Cfg.Entity
	} else {
		n.Registered = false
	}
}

func (w *World) buildReplica(i int) {
	gen := 0
	if i < len(w.replicas) && w.replicas[i] != nil {
		gen = w.replicas[i].Gen + 1
	}
	r := &Replica{Gen: gen}
	func() {
		defer func() {
			if rec := recover(); rec != nil {
				r.Err = fmt.Sprintf("panic in NewProvider: %v", rec)
			}
		}()
		if w.cfg.Neighbours {
			w.buildNeighbour(false)
		}
		p, err := buildProvider(&w.cfg.IDP, &simStorage{w: w})
		if err != nil {
			r.Err = err.Error()
			return
		}
		r.Prov = p
		if w.cfg.Neighbours {
			w.buildNeighbour(true)
		}
	}()
	if i < len(w.replicas) {
		w.replicas[i] = r
	} else {
		w.replicas = append(w.replicas, r)
	}
}

// buildNeighbour constructs (and drops) another provider in the same process, before and after the one under test: a second
// tenant, a blue/green pair, an admin API beside the public one. It has its own issuer and, custom = true, endpoint paths of
// its own; custom = false, the library defaults. Whatever the constructor keeps in package-level state must not leak from one
// provider into the other.
func (w *World) buildNeighbour(custom bool) {
	c := w.cfg.IDP
	c.IssuerKind, c.Issuer = "static", "https://neighbour.example/saml/nb"
	none := EndpointCfg{}
	c.SSO, c.SLO, c.Attr, c.Callback, c.Cert, c.Metadata = none, none, none, none, none, none
	c.WantSigned, c.Org, c.Contact, c.TimeFormat, c.MetaSigAlg = "", nil, nil, "", ""
	if custom {
		c.SSO, c.SLO, c.Attr = EndpointCfg{Set: true, Path: "/nb/sso"}, EndpointCfg{Set: true, Path: "/nb/logout"}, EndpointCfg{Set: true, Path: "/nb/attributes"}
		c.Callback, c.Cert, c.Metadata = EndpointCfg{Set: true, Path: "/nb/callback"}, EndpointCfg{Set: true, Path: "/nb/cert"}, EndpointCfg{Set: true, Path: "/nb/metadata"}
		c.WantSigned, c.TimeFormat = "true", "2006-01-02T15:04:05Z"
	}
	func() {
		defer func() { recover() }()
		buildProvider(&c, &simStorage{w: w})
	}()
	w.probe("neighbour_provider_built")
}

func (w *World) run() {
	// epoch: move the bubble clock (2000-01-01T00:00:00Z) to the run's epoch
	if w.cfg.EpochMs > 0 {
		time.Sleep(time.Duration(w.cfg.EpochMs) * time.Millisecond)
	}
	w.SimStart = time.Now()
	w.IDPModel = NewIDPModel(&w.cfg.IDP)
	for i := range w.cfg.SPs {
		n := &SPNode{Idx: i, Cfg: w.cfg.SPs[i]}
		w.sps = append(w.sps, n)
		w.register(n)
	}
	w.rogue = &SPNode{Idx: -1, Cfg: w.cfg.Rogue}
	w.rogue.MetaXML = []byte(BuildSPMetadata(&w.rogue.Cfg))
	for _, ps := range w.cfg.Presessions {
		if len(w.sps) == 0 {
			break
		}
		sp := w.sps[mod(ps.SP, len(w.sps))]
		app := ps.AppID
		if app == "" {
			app = sp.Cfg.AppID
		}
		s := &Session{Idx: len(w.sessions), AuthRequestID: ps.AuthRequestID, RelayState: ps.RelayState, ACS: ps.ACS,
			Binding: ps.Binding, AppID: app, Issuer: sp.Cfg.Entity, CreatedBy: -1, SP: sp.Idx}
		s.ID = w.sessionID(s.Idx)
		if ps.Done && len(w.cfg.Users) > 0 {
			s.DoneFlag = true
			s.UserID = w.cfg.Users[mod(ps.User, len(w.cfg.Users))].ID
		} else if w.cfg.LiveRecords && len(w.cfg.Users) > 0 {
			s.UserID = w.cfg.Users[mod(ps.User, len(w.cfg.Users))].ID // the login UI preselected a user who has not authenticated yet
		}
		w.noteState(s)
		w.sessions = append(w.sessions, s)
		w.hist.add("preseed", -1, fmt.Sprintf("session %d done=%v", s.Idx, s.DoneFlag))
	}
	for i := 0; i < w.cfg.Replicas; i++ {
		w.buildReplica(i)
		if w.replicas[i].Err != "" {
			w.ConstructErr = w.replicas[i].Err
			w.hist.add("construct-error", -1, w.ConstructErr)
			w.SimEnd = time.Now()
			return
		}
	}
	w.constructed = true
	track := w.plan.Property == "C15"
	if track {
		w.sharedBase = w.snapshotShared()
	}
	for i := range w.plan.Steps {
		w.step(&w.plan.Steps[i])
		if track && w.SharedChanged == "" && len(w.inflight()) == 0 {
			if w.plan.Steps[i].K == "restart" {
				w.sharedBase = w.snapshotShared()
			} else if now := w.snapshotShared(); now != w.sharedBase {
				w.SharedChanged = fmt.Sprintf("after step %d (%s)", i, w.plan.Steps[i].K)
				w.hist.add("shared-state-changed", -1, w.SharedChanged)
			}
		}
	}
	w.drain()
	w.finalizeDone()
	if w.plan.Recovery {
		w.heal()
		w.recoveryPhase()
		w.drain()
	}
	w.SimEnd = time.Now()
	w.finalizeDone()
}

// finalizeDone decodes the reply of every task that has finished since the last call (controller only).
func (w *World) finalizeDone() {
	w.mu.Lock()
	var todo []*Task
	for _, t := range w.tasks {
		if t.st() == tsDone && t.Reply == nil {
			todo = append(todo, t)
		}
	}
	w.mu.Unlock()
	for _, t := range todo {
		w.finalizeTask(t)
	}
}

func mod(a, n int) int {
	if n <= 0 {
		return 0
	}
	a %= n
	if a < 0 {
		a += n
	}
	return a
}

func (w *World) sessionID(idx int) string {
	h := sha256.Sum256([]byte(fmt.Sprintf("session|%d|%d", w.cfg.UUIDKey, idx)))
	return fmt.Sprintf("ar%d-%s", idx, hex.EncodeToString(h[:6]))
}

func (w *World) parked() []*Task {
	w.mu.Lock()
	defer w.mu.Unlock()
	var out []*Task
	for _, t := range w.tasks {
		if t.st() == tsParked {
			out = append(out, t)
		}
	}
	return out
}

func (w *World) inflight() []*Task {
	w.mu.Lock()
	defer w.mu.Unlock()
	var out []*Task
	for _, t := range w.tasks {
		if t.st() != tsDone {
			out = append(out, t)
		}
	}
	return out
}

func (w *World) noop(why string) {
	w.NoOps++
	w.hist.add("noop", -1, why)
}

func (w *World) heal() {
	w.uuidSrc.mu.Lock()
	w.uuidSrc.failLeft = 0
	w.uuidSrc.mu.Unlock()
	w.mu.Lock()
	if w.respKeyTorn {
		w.respKeyVer++ // the rotation completes
		w.respKeyTorn = false
	}
	w.mu.Unlock()
	w.healed = true
	w.healthy = true
	w.hist.add("heal", -1, "")
}

func (w *World) step(s *Step) {
	defer w.finalizeDone()
	switch s.K {
	case "send":
		if s.Msg == nil {
			w.noop("send without msg")
			return
		}
		w.send(s.Msg)
	case "resume":
		ps := w.parked()
		if len(ps) == 0 {
			w.noop("resume: nothing parked")
			return
		}
		t := ps[mod(s.Pick, len(ps))]
		if s.ByID {
			t = nil
			for _, x := range ps {
				if x.ID == s.Pick {
					t = x
				}
			}
			if t == nil {
				w.noop("resume: task not parked")
				return
			}
		}
		w.resumeTask(t, s.Fault)
		w.settle()
	case "finish":
		ps := w.parked()
		if len(ps) == 0 {
			w.noop("finish: nothing parked")
			return
		}
		t := ps[mod(s.Pick, len(ps))]
		if s.ByID {
			t = nil
			for _, x := range ps {
				if x.ID == s.Pick {
					t = x
				}
			}
			if t == nil {
				w.noop("finish: task not parked")
				return
			}
		}
		for guard := 0; guard < 1000; guard++ {
			w.mu.Lock()
			st := t.st()
			w.mu.Unlock()
			if st != tsParked {
				break
			}
			w.resumeTask(t, "")
			w.settle()
		}
	case "randfail":
		// the random source the message ids come from fails for the next reads (google/uuid's New panics on that; a library
		// that swallows the error hands out the nil UUID)
		w.uuidSrc.mu.Lock()
		w.uuidSrc.failLeft = 1 + mod(s.Pick, 6)
		w.uuidSrc.mu.Unlock()
		w.fire("random_source_failure")
		w.hist.add("randfail", -1, fmt.Sprint(1+mod(s.Pick, 6)))
	case "cancel":
		// the client of an in-flight request disconnects: net/http cancels the request context; the storage calls of this
		// simulator (like many real ones) run on regardless
		ps := w.parked()
		if len(ps) == 0 {
			w.noop("cancel: nothing parked")
			return
		}
		t := ps[mod(s.Pick, len(ps))]
		if t.Cancelled || t.cancel == nil {
			w.noop("cancel: already cancelled")
			return
		}
		t.Cancelled = true
		t.cancel()
		w.fire("client_cancelled")
		w.hist.add("cancel", t.ID, "")
		w.settle()
	case "until":
		// run one task up to (not into) its next call of s.Op; it stops earlier when it finishes or blocks inside the library
		want := s.Pick
		if want < 0 {
			want = len(w.tasks) - 1 // the task sent last
		}
		for guard := 0; guard < 16; guard++ {
			var t *Task
			for _, x := range w.parked() {
				if x.ID == want {
					t = x
				}
			}
			if t == nil {
				if guard == 0 {
					w.noop("until: task not parked")
				}
				return
			}
			if t.parkedOp == s.Op {
				return
			}
			w.resumeTask(t, "")
			w.settle()
		}
	case "pair":
		ps := w.parked()
		if len(ps) < 2 {
			if len(ps) == 1 {
				w.resumeTask(ps[0], "")
				w.settle()
				return
			}
			w.noop("pair: nothing parked")
			return
		}
		a := mod(s.Pick, len(ps))
		b := mod(s.Pick2, len(ps)-1)
		if b >= a {
			b++
		}
		ps[a].Overlapped, ps[b].Overlapped = true, true
		w.hist.add("overlap", -1, fmt.Sprintf("%d+%d", ps[a].ID, ps[b].ID))
		w.probe("overlap_window")
		// no ordering edge between the two resumed segments: both channel sends happen before either runs on
		if w.mode != "race" {
			// serial mode keeps the run a pure function of the plan: the two segments run one after the other
			w.resumeTask(ps[a], "")
			w.settle()
			w.resumeTask(ps[b], "")
			w.settle()
			return
		}
		w.resumeTask(ps[a], "")
		w.resumeTask(ps[b], "")
		w.settle()
	case "advance":
		if s.Ns <= 0 {
			w.noop("advance 0")
			return
		}
		if time.Now().Add(time.Duration(s.Ns)).After(simClockLimit) {
			// every fixture certificate (IdP and SPs) is valid 1990–2100; beyond that a conformant signed request is refused for a
			// reason that has nothing to do with the library (found by a soak run that summed several ten-year jumps)
			w.noop("advance: beyond the validity of the fixture certificates")
			return
		}
		if w.runningTasks() > 0 {
			// a request is blocked on a sync lock that another, parked request holds inside the library. A lock wait is not a
			// durable block, so the bubble is never idle and its clock cannot move: sleeping here would hang for ever. The step
			// is skipped (deterministically: the state it depends on is a function of the plan prefix).
			w.probe("clock_move_skipped_task_blocked_on_library_lock")
			w.noop("advance: a request is blocked on a library lock")
			return
		}
		infl := w.inflight()
		for _, t := range infl {
			t.AdvDuring = true
		}
		if len(infl) > 0 {
			w.fire("advance_while_parked")
		}
		time.Sleep(time.Duration(s.Ns))
		w.hist.add("advance", -1, fmt.Sprintf("%d", s.Ns))
		if s.Ns >= int64(time.Hour) {
			w.fire("jump_forward")
		}
	case "mutate":
		w.mutate(s)
	case "restart":
		if len(w.replicas) == 0 {
			return
		}
		i := mod(s.Replica, len(w.replicas))
		w.mu.Lock()
		for _, t := range w.tasks {
			if t.Replica == i && t.st() != tsDone {
				t.Abandoned = true
			}
		}
		w.mu.Unlock()
		w.buildReplica(i)
		w.fire("restart")
		w.hist.add("restart", -1, fmt.Sprintf("replica %d gen %d", i, w.replicas[i].Gen))
	case "heal":
		w.heal()
	case "drain":
		w.drain()
	default:
		w.noop("unknown step " + s.K)
	}
}

// ---------------------------------------------------------------------------
// quiescence

// realTick is advanced by a goroutine outside every bubble about every 500 µs of real time; it only paces the (rare)
// goroutine-state scans of settle and never influences a decision.
var (
	realTick     atomic.Int64
	realTickOnce sync.Once
)

func startRealTick() {
	realTickOnce.Do(func() {
		go func() {
			for {
				time.Sleep(500 * time.Microsecond)
				realTick.Add(1)
			}
		}()
	})
}

func (w *World) runningTasks() int {
	w.mu.Lock()
	defer w.mu.Unlock()
	n := w.shadowRunning
	for _, t := range w.tasks {
		if t.st() == tsRunning {
			n++
		}
	}
	return n
}

// settle returns when no task can make progress any more. Normally that is synctest.Wait(): every task is parked at a seam
// (or has finished) and therefore durably blocked. A library that holds a sync.Mutex across a storage call makes a second
// request block on that mutex while the first is parked inside the call; a mutex wait is not a durable block, so
// synctest.Wait() would never return. In that case the goroutine states of the bubble are inspected: the world is quiescent
// when every other goroutine of the bubble is blocked durably or on a sync lock.
func (w *World) settle() {
	start := realTick.Load()
	for {
		runtime.Gosched()
		if w.runningTasks() == 0 {
			synctest.Wait()
			return
		}
		if realTick.Load()-start < 2 {
			continue
		}
		start = realTick.Load()
		quiet, lockWaiters := bubbleQuiescent()
		if !quiet {
			continue
		}
		if lockWaiters == 0 {
			synctest.Wait() // tasks blocked inside the library on channels / conds: durable, exact
			return
		}
		w.probe("task_blocked_on_library_lock")
		return
	}
}

var stackBuf = make([]byte, 1<<20)

// bubbleQuiescent inspects the goroutine headers of a full stack dump: quiet = no goroutine of a synctest bubble other than
// the caller is running or runnable; lockWaiters = how many of them wait for a sync.Mutex / sync.RWMutex.
func bubbleQuiescent() (quiet bool, lockWaiters int) {
	n := runtime.Stack(stackBuf, true)
	for n == len(stackBuf) {
		stackBuf = make([]byte, 2*len(stackBuf))
		n = runtime.Stack(stackBuf, true)
	}
	quiet = true
	first := true
	for _, blk := range bytes.Split(stackBuf[:n], []byte("\n\n")) {
		if !bytes.HasPrefix(blk, []byte("goroutine ")) {
			continue
		}
		if first {
			first = false // the caller itself
			continue
		}
		nl := bytes.IndexByte(blk, '\n')
		if nl < 0 {
			nl = len(blk)
		}
		hdr := string(blk[:nl])
		if !strings.Contains(hdr, "synctest bubble") {
			continue
		}
		lb, rb := strings.IndexByte(hdr, '['), strings.LastIndexByte(hdr, ']')
		if lb < 0 || rb < lb {
			continue
		}
		state := hdr[lb+1 : rb]
		switch {
		case strings.Contains(state, "(durable)"):
		case strings.HasPrefix(state, "sync.Mutex.Lock"), strings.HasPrefix(state, "sync.RWMutex."):
			lockWaiters++
		default:
			quiet = false
		}
	}
	return quiet, lockWaiters
}

// simClockLimit: the simulated clock never passes this instant (fixture certificates expire in 2100).
var simClockLimit = time.Date(2095, 1, 1, 0, 0, 0, 0, time.UTC)

func (w *World) resumeTask(t *Task, fault string) {
	w.hist.add("resume", t.ID, t.parkedOp+" fault="+fault)
	// mark as running before handing over so a second resume in the same step cannot pick it again
	w.mu.Lock()
	t.resuming = true
	w.mu.Unlock()
	t.resume <- resumeCmd{fault: fault}
}

// drain lets every in-flight task finish, lowest id first, without faults.
func (w *World) drain() {
	for guard := 0; guard < 10000; guard++ {
		ps := w.parked()
		if len(ps) == 0 {
			return
		}
		w.resumeTask(ps[0], "")
		w.settle()
	}
	panic("drain did not terminate")
}

func (w *World) mutate(s *Step) {
	switch s.Mut {
	case "reregister", "deleteSP", "moveApp":
		w.mu.Lock()
		w.regSeq++
		w.mu.Unlock()
	}
	// reach probe: the environment changes while a request sits between two of its storage calls
	for _, t := range w.inflight() {
		w.mu.Lock()
		n := len(t.Calls)
		w.mu.Unlock()
		if n >= 1 {
			w.probe("state_changed_between_calls_of_a_request:" + s.Mut)
			break
		}
	}
	switch s.Mut {
	case "complete", "uncomplete":
		live := w.sessions
		if len(live) == 0 || len(w.cfg.Users) == 0 {
			w.noop("complete: no session")
			return
		}
		w.mu.Lock()
		se := live[mod(s.A, len(live))]
		if s.Mut == "complete" {
			se.DoneFlag = true
			se.UserID = w.cfg.Users[mod(s.B, len(w.cfg.Users))].ID
		} else {
			se.DoneFlag = false
		}
		se.Version++
		w.noteState(se)
		w.mu.Unlock()
		w.hist.add("mutate", -1, fmt.Sprintf("%s session %d user %s", s.Mut, se.Idx, se.UserID))
		for _, t := range w.inflight() {
			if t.Msg.Kind == "callback" {
				w.probe("callback_raced_completion")
			}
		}
	case "deleteRequest":
		if len(w.sessions) == 0 {
			w.noop("deleteRequest: no session")
			return
		}
		w.mu.Lock()
		se := w.sessions[mod(s.A, len(w.sessions))]
		se.Deleted = true
		se.Version++
		w.mu.Unlock()
		w.fire("request_deleted")
		w.hist.add("mutate", -1, fmt.Sprintf("deleteRequest %d", se.Idx))
	case "tearKey":
		w.mu.Lock()
		w.respKeyTorn = true
		w.mu.Unlock()
		w.fire("key_record_torn")
		w.hist.add("mutate", -1, fmt.Sprintf("tearKey: certificate v%d next to key v%d", w.respKeyVer+1, w.respKeyVer))
	case "rotateKey":
		w.mu.Lock()
		w.respKeyVer++
		w.respKeyTorn = false
		w.mu.Unlock()
		w.fire("key_rotated")
		w.hist.add("mutate", -1, fmt.Sprintf("rotateKey → v%d", w.respKeyVer))
	case "rotateMetaKey":
		w.mu.Lock()
		w.metaKeyVer++
		w.mu.Unlock()
		w.fire("key_rotated")
		w.hist.add("mutate", -1, fmt.Sprintf("rotateMetaKey → v%d", w.metaKeyVer))
	case "reregister":
		if len(w.sps) == 0 {
			return
		}
		n := w.sps[mod(s.A, len(w.sps))]
		w.mu.Lock()
		cfg := n.Cfg
		cfg.ACS = append([]ACSCfg(nil), cfg.ACS...)
		cfg.SLO = append([]SLOCfg(nil), cfg.SLO...)
		switch mod(s.B, 8) {
		case 7:
			// the SP withdraws all its consumer endpoints (an attribute-requester-only registration)
			cfg.ACS = nil
		case 5:
			// the SP moves to bindings this IdP cannot serve
			for i := range cfg.ACS {
				cfg.ACS[i].Binding = BindArtifact
			}
		case 6:
			// … or (back) to a single plain POST endpoint
			if len(cfg.ACS) > 0 {
				cfg.ACS = []ACSCfg{{Binding: BindPost, Index: "0", URL: bumpURL(cfg.ACS[0].URL)}}
			}
		case 0:
			if cfg.Key == KeySPRot {
				cfg.Key = KeySP0 + mod(n.Idx, 4)
			} else {
				cfg.Key = KeySPRot
			}
		case 1:
			for i := range cfg.ACS {
				cfg.ACS[i].URL = bumpURL(cfg.ACS[i].URL)
			}
		case 2:
			if isXSTrue(cfg.AuthnRequestsSigned) {
				cfg.AuthnRequestsSigned = "false"
			} else {
				cfg.AuthnRequestsSigned = "true"
			}
		case 3:
			for i := range cfg.SLO {
				cfg.SLO[i].URL = bumpURL(cfg.SLO[i].URL)
			}
		case 4:
			if len(cfg.ACS) > 1 {
				cfg.ACS = append(cfg.ACS[1:], cfg.ACS[0])
			}
		}
		delete(w.byEntity, n.Cfg.Entity)
		n.Cfg = cfg
		n.Version++
		n.Deleted = false
		w.mu.Unlock()
		w.register(n)
		w.fire("sp_reregistered")
	case "deleteSP":
		if len(w.sps) == 0 {
			return
		}
		n := w.sps[mod(s.A, len(w.sps))]
		w.mu.Lock()
		delete(w.byEntity, n.Cfg.Entity)
		n.Registered = false
		n.Deleted = true
		n.Version++
		w.mu.Unlock()
		w.fire("sp_deleted")
		w.hist.add("mutate", -1, fmt.Sprintf("deleteSP %d", n.Idx))
	case "moveApp":
		// the application of SP A is registered again under the entityID of SP B (what GetEntityIDByAppID answers changes)
		if len(w.sps) < 2 {
			w.noop("moveApp: fewer than two service providers")
			return
		}
		a, b := w.sps[mod(s.A, len(w.sps))], w.sps[mod(s.B, len(w.sps))]
		w.mu.Lock()
		w.appToEnt[a.Cfg.AppID] = b.Cfg.Entity
		w.mu.Unlock()
		w.fire("app_moved_to_other_entity")
		w.hist.add("mutate", -1, fmt.Sprintf("moveApp %d -> entity of %d", a.Idx, b.Idx))
	case "unhealthy":
		w.healthy = false
	default:
		w.noop("unknown mutation " + s.Mut)
	}
}

func bumpURL(u string) string {
	base, q, has := strings.Cut(u, "?")
	if has {
		return base + "/v2?" + q
	}
	return base + "/v2"
}

// isXSTrue: the lexical forms of xs:boolean true; the type's whiteSpace facet is "collapse", so surrounding XML white space
// does not count. "True", "TRUE", "T", "yes" … are not xs:boolean values at all and therefore declare nothing.
func isXSTrue(s string) bool {
	s = strings.Trim(s, " \t\r\n")
	return s == "true" || s == "1"
}

// send creates a request task on a replica; it runs until its first seam.
func (w *World) send(m *MsgSpec) *Task {
	if len(w.replicas) == 0 {
		return nil
	}
	if m.DelayNs > 0 {
		// the SP stamps the message first, then the browser delays delivery: handled inside BuildRequest
	}
	if m.Kind == "probe" {
		m = w.resolveProbe(m)
		if m == nil {
			w.noop("probe: no metadata fetched for this host yet, or endpoint not mappable")
			return nil
		}
	}
	ri := mod(m.Replica, len(w.replicas))
	t := &Task{ID: len(w.tasks), Msg: m, Replica: ri, RepGen: w.replicas[ri].Gen, w: w,
		resume: make(chan resumeCmd), done: make(chan struct{}), InFaultEra: !w.healed, Recovery: m.Recovery}
	req, sent, err := BuildRequest(w, t, m)
	if err != nil {
		w.noop("send: " + err.Error())
		return nil
	}
	t.Sent = sent
	w.mu.Lock()
	w.tasks = append(w.tasks, t)
	w.mu.Unlock()
	t.Writer = &RecWriter{task: t, hdr: http.Header{}, failAt: -1}
	if m.WriterFault {
		t.Writer.failAt = m.WriterOff
	}
	// the request context is the one net/http would hand to the handler: it is cancelled when the client goes away (step
	// "cancel") or when a server-side deadline passes (MsgSpec.DeadlineNs, on the simulated clock)
	ctx := context.WithValue(req.Context(), taskKey{}, t)
	releaseDeadline := func() {}
	if m.DeadlineNs > 0 {
		var c1 context.CancelFunc
		ctx, c1 = context.WithTimeout(ctx, time.Duration(m.DeadlineNs))
		releaseDeadline = c1
		w.fire("request_deadline")
	}
	ctx, t.cancel = context.WithCancel(ctx)
	req = req.WithContext(ctx)
	t.TInvoke = time.Now()
	t.Dep0 = w.depStamp(t)
	for _, n := range w.sps {
		t.SPVers0 = append(t.SPVers0, n.Version)
	}
	t.RespKeyVer0, t.MetaKeyVer0 = w.respCertVer(), w.metaKeyVer
	t.SeqInvoke = w.hist.add("invoke", t.ID, fmt.Sprintf("%s sp=%d replica=%d %s", m.Kind, m.SP, ri, sent.Summary))
	h := w.replicas[ri].Prov.HttpHandler()
	go func() {
		defer func() {
			if r := recover(); r != nil {
				t.Panic = fmt.Sprintf("%v", r)
				t.PanicStack = string(debug.Stack())
				t.PanicFunc = firstRepoFunc(t.PanicStack)
			}
			t.TReturn = time.Now()
			w.mu.Lock()
			t.RespKeyVer1, t.MetaKeyVer1 = w.respCertVer(), w.metaKeyVer
			t.handlerDone = true
			w.mu.Unlock()
			t.SeqReturn = w.hist.add("return", t.ID, "")
			close(t.done)
		}()
		// like net/http: the request context ends when the handler returns
		defer releaseDeadline()
		defer t.cancel()
		h.ServeHTTP(t.Writer, req)
	}()
	w.settle()
	return t
}

func (w *World) finalizeTask(t *Task) {
	wr := t.Writer
	status := wr.status
	if !wr.wroteHeader {
		status = 200 // net/http sends 200 with an empty body when a handler returns without writing
	}
	hdr := wr.snapHdr
	if hdr == nil {
		hdr = wr.hdr
	}
	t.Reply = DecodeReply(status, hdr, wr.body.Bytes())
	w.hist.add("reply", t.ID, replySummary(t))
	if t.Msg.Kind == "callback" && t.Dep0 == w.depStamp(t) {
		if c := firstCall(t, "AuthRequestByID"); c != nil && c.Snap != nil {
			w.mu.Lock()
			t.StableAudience, t.HasStableAudience = w.appToEnt[c.Snap.AppID]
			w.mu.Unlock()
		}
	}
	w.runShadow(t)
}

func replySummary(t *Task) string {
	r := t.Reply
	s := fmt.Sprintf("status=%d kind=%s target=%q relay=%q", r.Status, r.Kind, r.Target, r.RelayState)
	if t.Panic != "" {
		s += " PANIC in " + t.PanicFunc
	}
	if r.Msg != nil {
		m := r.Msg
		s += fmt.Sprintf(" msg=%s code=%s smsg=%q irt=%q dest=%q issuer=%q", m.Kind, m.StatusCode, abbreviate(m.StatusMessage, 160), m.InResponseTo, m.Destination, m.Issuer)
		for _, a := range m.Assertions {
			attrs := make([]string, 0, len(a.Attrs))
			for _, at := range a.Attrs {
				attrs = append(attrs, fmt.Sprintf("%s|%s|%s|%q", at.Name, at.NameFormat, at.FriendlyName, at.Values))
			}
			sort.Strings(attrs)
			s += fmt.Sprintf(" assertion{nameid=%q aud=%q rcpt=%q attrs=%v}", a.NameID, a.Audiences, a.SCDRecipient, attrs)
		}
	}
	if r.DecodeErr != "" {
		s += " decodeErr=" + r.DecodeErr
	}
	return s
}

// firstRepoFunc extracts the first github.com/zitadel/saml frame's function from a stack trace.
func firstRepoFunc(stack string) string {
	for _, line := range strings.Split(stack, "\n") {
		line = strings.TrimSpace(line)
		if strings.HasPrefix(line, "github.com/zitadel/saml/") {
			f := strings.TrimPrefix(line, "github.com/zitadel/saml/pkg/")
			if i := strings.LastIndex(f, "("); i > 0 {
				f = f[:i]
			}
			// strip closure suffixes: provider.(*IdentityProvider).ssoHandleFunc.func5 → …ssoHandleFunc
			for {
				j := strings.LastIndex(f, ".")
				if j < 0 {
					break
				}
				suf := f[j+1:]
				if strings.HasPrefix(suf, "func") || isDigits(suf) {
					f = f[:j]
					continue
				}
				break
			}
			return f
		}
	}
	return "unknown"
}

func isDigits(s string) bool {
	if s == "" {
		return false
	}
	for _, c := range s {
		if c < '0' || c > '9' {
			return false
		}
	}
	return true
}

// ---------------------------------------------------------------------------
// storage (simulator-owned, real semantics, trivial inside)

type simStorage struct{ w *World }

var _ provider.Storage = (*simStorage)(nil)

var errInjected = errors.New("sim: injected storage failure")

// enter is the seam: park, then learn the fault decision for this call.
func (s *simStorage) enter(ctx context.Context, op string, args ...string) (*Task, *CallRec, string) {
	t := taskFrom(ctx)
	fault := ""
	if t != nil {
		fault = t.park(op)
		if fault == "" && t.Msg.FaultAt > 0 && len(t.Calls)+1 == t.Msg.FaultAt && !s.w.healed {
			fault = t.Msg.FaultKind
		}
	}
	if t != nil && fault == "" && s.w.cfg.CtxAware && ctx.Err() != nil && !t.Abandoned {
		// storage flavour: a storage that honours the context it is given (database/sql does) gives up with the context's error
		// once that context is done — whether the client went away, a server deadline passed, or the library itself put a
		// deadline of its own around this call and the simulated clock moved past it while the call was parked
		if errors.Is(ctx.Err(), context.DeadlineExceeded) {
			fault = "err_deadline"
		} else {
			fault = "err_canceled"
		}
		s.w.probe("storage_gave_up_with_context_error")
	}
	fault = normFault(op, fault)
	rec := &CallRec{Op: op, Args: args, Fault: fault, SPIdx: -2, UserIdx: -1, KeyVer: -1, CtxIssuer: provider.IssuerFromContext(ctx)}
	if t != nil {
		rec.T = time.Now()
		rec.Abandond = t.Abandoned
		if t.Abandoned {
			// the replica this task ran on is gone: whatever it does from here on does not exist
			rec.Fault = "abandoned"
			fault = "abandoned"
		} else if fault != "" && fault != "none" {
			t.FaultFired = append(t.FaultFired, op+":"+fault)
			s.w.fire("storage_" + fault)
		}
	}
	return t, rec, fault
}

func (s *simStorage) leave(t *Task, rec *CallRec) {
	if t == nil {
		return
	}
	rec.Seq = s.w.hist.add("call", t.ID, fmt.Sprintf("%s(%s) fault=%s err=%q ret=%s", rec.Op, strings.Join(rec.Args, ","), rec.Fault, rec.Err, rec.Ret))
	s.w.mu.Lock()
	t.Calls = append(t.Calls, *rec)
	s.w.mu.Unlock()
}

func isErrFault(f string) bool { return f == "err" || f == "abandoned" || strings.HasPrefix(f, "err_") }

// injectedErr: the error value a failing storage call returns. Which value a storage returns is its own business (a
// cancelled or timed-out context, a driver's "no rows", a broken connection); the library must fail closed on all of them.
func injectedErr(fault string) error {
	switch fault {
	case "err_canceled":
		return context.Canceled
	case "err_deadline":
		return fmt.Errorf("sim: storage call: %w", context.DeadlineExceeded)
	case "err_notfound":
		return fmt.Errorf("sim: lookup: %w", sql.ErrNoRows)
	case "err_eof":
		return io.ErrUnexpectedEOF
	case "err_text":
		// what a driver's message can look like: quotes, markup characters, an ampersand, terminal colour escapes, a NUL, Latin-1 bytes
		return errors.New("sim: \x1b[31mFATAL\x1b[0m: connection to \"db\" <primary> failed (dsn='host=db&sslmode=disable') caf\xe9 \x00 ]]>")
	}
	return errInjected
}

// partial: a user-info call that writes some attributes and then fails.
func (w *World) partialUser(u *UserCfg, set models.AttributeSetter) {
	if u.Email != "" {
		set.SetEmail(u.Email)
	}
	if u.Username != "" {
		set.SetUsername(u.Username)
	}
	if u.UID != "" {
		set.SetUserID(u.UID)
	}
}

// normFault maps a plan's fault word onto the kinds that exist for the operation: the key getters
// know the malformed-record kinds, every other operation can only return an error.
func normFault(op, fault string) string {
	switch fault {
	case "", "none":
		return ""
	case "err", "abandoned", "err_canceled", "err_deadline", "err_notfound", "err_eof", "err_text":
		return fault
	}
	if (op == "SetUserinfoWithUserID" || op == "SetUserinfoWithLoginName") && fault == "partial_err" {
		return fault // the storage fills in part of the record and then fails
	}
	if op == "GetResponseSigningKey" || op == "GetMetadataSigningKey" {
		switch fault {
		case "nil_record", "key_without_cert", "cert_without_key", "empty_cert", "cert_mismatch", "cert_truncated":
			return fault
		}
	}
	return "err"
}

func (s *simStorage) GetCA(ctx context.Context) (*key.CertificateAndKey, error) {
	t, rec, fault := s.enter(ctx, "GetCA")
	defer s.leave(t, rec)
	if isErrFault(fault) {
		rec.Err = injectedErr(fault).Error()
		return nil, injectedErr(fault)
	}
	kp := Keys[KeyIDPMeta0]
	return &key.CertificateAndKey{Certificate: kp.CertDER, Key: kp.Key}, nil
}

func (s *simStorage) keyResult(rec *CallRec, fault string, kp *KeyPair) (*key.CertificateAndKey, error) {
	switch fault {
	case "err", "abandoned", "err_canceled", "err_deadline", "err_notfound", "err_eof", "err_text":
		rec.Err = injectedErr(fault).Error()
		return nil, injectedErr(fault)
	case "nil_record":
		rec.Ret = "nil"
		return nil, nil
	case "key_without_cert":
		rec.Ret = "key-only"
		return &key.CertificateAndKey{Key: kp.Key}, nil
	case "cert_without_key":
		rec.Ret = "cert-only"
		return &key.CertificateAndKey{Certificate: kp.CertDER}, nil
	case "empty_cert":
		rec.Ret = "empty-cert"
		return &key.CertificateAndKey{Certificate: []byte{}, Key: kp.Key}, nil
	case "cert_mismatch":
		// a half-finished rotation: the certificate of another key next to this private key (signing fails, the record looks complete)
		rec.Ret = "cert-of-another-key"
		return &key.CertificateAndKey{Certificate: append([]byte(nil), Keys[KeyRogue].CertDER...), Key: kp.Key}, nil
	case "cert_truncated":
		rec.Ret = "cert-truncated"
		return &key.CertificateAndKey{Certificate: append([]byte(nil), kp.CertDER[:len(kp.CertDER)/2]...), Key: kp.Key}, nil
	}
	rec.Ret = fmt.Sprintf("key#%d", kp.Idx)
	return &key.CertificateAndKey{Certificate: append([]byte(nil), kp.CertDER...), Key: kp.Key}, nil
}

func (w *World) respKey(ver int) *KeyPair {
	if w.cfg.IDP.ExpiredRespCert && mod(ver, 3) == 0 {
		return Keys[KeyShort] // a response signing certificate whose validity (the year 2001) has passed or not begun
	}
	return Keys[KeyIDPResp0+mod(ver, 3)]
}

// respCertVer: the version of the response signing certificate the storage currently hands out (and the IdP therefore publishes).
func (w *World) respCertVer() int {
	if w.respKeyTorn {
		return w.respKeyVer + 1
	}
	return w.respKeyVer
}
func (w *World) metaKey(ver int) *KeyPair { return Keys[KeyIDPMeta0+mod(ver, 2)] }

func (s *simStorage) GetMetadataSigningKey(ctx context.Context) (*key.CertificateAndKey, error) {
	t, rec, fault := s.enter(ctx, "GetMetadataSigningKey")
	defer s.leave(t, rec)
	s.w.mu.Lock()
	ver := s.w.metaKeyVer
	s.w.mu.Unlock()
	rec.KeyVer = ver
	return s.keyResult(rec, fault, s.w.metaKey(ver+s.tenantShift(ctx)))
}

// tenantShift: storage flavour "keys per tenant". A multi-tenant storage finds its tenant in the values of the context the
// library passes on (the issuer the interceptor put there); a call that arrives without it — a detached context, a
// context.Background() in a goroutine the library starts — is answered with the key of the default tenant, which is another
// key. The version recorded for the call stays the one the request's own tenant has, so that every oracle expects that key.
func (s *simStorage) tenantShift(ctx context.Context) int {
	if !s.w.cfg.TenantKeys || shadowFrom(ctx) != nil {
		return 0
	}
	if provider.IssuerFromContext(ctx) != "" {
		return 0
	}
	s.w.probe("key_read_without_tenant_in_context")
	return 1
}

func (s *simStorage) GetResponseSigningKey(ctx context.Context) (*key.CertificateAndKey, error) {
	t, rec, fault := s.enter(ctx, "GetResponseSigningKey")
	defer s.leave(t, rec)
	s.w.mu.Lock()
	ver, torn := s.w.respKeyVer, s.w.respKeyTorn
	s.w.mu.Unlock()
	rec.KeyVer = ver
	if torn && (fault == "" || fault == "none") {
		// the certificate handed out (and therefore published) is the next version's, the private key still the current one
		rec.KeyVer = ver + 1
		sh := s.tenantShift(ctx)
		rec.Ret = fmt.Sprintf("cert#%d+key#%d", s.w.respKey(ver+1+sh).Idx, s.w.respKey(ver+sh).Idx)
		s.w.probe("torn_key_record_handed_out")
		return &key.CertificateAndKey{Certificate: append([]byte(nil), s.w.respKey(ver+1+sh).CertDER...), Key: s.w.respKey(ver + sh).Key}, nil
	}
	return s.keyResult(rec, fault, s.w.respKey(ver+s.tenantShift(ctx)))
}

func (s *simStorage) GetEntityByID(ctx context.Context, entityID string) (*serviceprovider.ServiceProvider, error) {
	t, rec, fault := s.enter(ctx, "GetEntityByID", entityID)
	defer s.leave(t, rec)
	if isErrFault(fault) {
		rec.Err = injectedErr(fault).Error()
		return nil, injectedErr(fault)
	}
	s.w.mu.Lock()
	n := s.w.byEntity[entityID]
	s.w.mu.Unlock()
	if n == nil || n.Obj == nil {
		if s.w.cfg.NilUnknown {
			// a storage that reports "no such row" as a nil record without an error
			rec.Ret = "nil"
			s.w.fire("storage_unknown_sp_as_nil")
			return nil, nil
		}
		rec.Err = "not found"
		return nil, fmt.Errorf("sim: no service provider registered for entityID")
	}
	rec.SPIdx, rec.SPVer = n.Idx, n.Version
	c := n.Cfg
	rec.SPCfg = &c
	rec.Ret = fmt.Sprintf("sp%d.v%d", n.Idx, n.Version)
	if s.w.cfg.SharedSP {
		return n.Obj, nil
	}
	// a fresh object per call, like a storage that unmarshals a row
	obj, err := serviceprovider.NewServiceProvider(n.Cfg.AppID, &serviceprovider.Config{Metadata: n.MetaXML}, loginURLFor(n.Idx))
	if err != nil {
		rec.Err = err.Error()
		return nil, err
	}
	return obj, nil
}

func (s *simStorage) GetEntityIDByAppID(ctx context.Context, appID string) (string, error) {
	t, rec, fault := s.enter(ctx, "GetEntityIDByAppID", appID)
	defer s.leave(t, rec)
	if isErrFault(fault) {
		rec.Err = injectedErr(fault).Error()
		return "", injectedErr(fault)
	}
	s.w.mu.Lock()
	ent, ok := s.w.appToEnt[appID]
	s.w.mu.Unlock()
	if !ok {
		rec.Err = "not found"
		return "", fmt.Errorf("sim: unknown application")
	}
	rec.Ret = ent
	return ent, nil
}

func (s *simStorage) CreateAuthRequest(ctx context.Context, req *samlp.AuthnRequestType, acsURL, binding, relayState, appID string) (models.AuthRequestInt, error) {
	id := ""
	issuer := ""
	dest := ""
	if req != nil {
		id = req.Id
		dest = req.Destination
		if req.Issuer != nil {
			issuer = req.Issuer.Text
		}
	}
	t, rec, fault := s.enter(ctx, "CreateAuthRequest", id, acsURL, binding, relayState, appID)
	defer s.leave(t, rec)
	if isErrFault(fault) {
		rec.Err = injectedErr(fault).Error()
		if s.w.cfg.TypedNil {
			return s.typedNil(), injectedErr(fault)
		}
		return nil, injectedErr(fault)
	}
	if sc := shadowFrom(ctx); sc != nil {
		// a shadow execution writes nowhere: it gets a record with the id the original request's persist returned
		sc.calls = append(sc.calls, "CreateAuthRequest("+strings.Join(rec.Args, ",")+")")
		id2 := sc.persistID
		if id2 == "" {
			id2 = "shadow-only"
		}
		return &AuthReqSnap{s: Session{ID: id2, AuthRequestID: id, RelayState: relayState, ACS: acsURL, Binding: binding, AppID: appID, Issuer: issuer, Destination: dest, SP: -2}}, nil
	}
	s.w.mu.Lock()
	se := &Session{Idx: len(s.w.sessions), AuthRequestID: id, RelayState: relayState, ACS: acsURL, Binding: binding,
		AppID: appID, Issuer: issuer, Destination: dest, SP: -2}
	if t != nil {
		se.CreatedBy = t.ID
	}
	for _, n := range s.w.sps {
		if n.Cfg.AppID == appID {
			se.SP = n.Idx
		}
	}
	rec.IssuerSP = -2
	if n := s.w.byEntity[issuer]; n != nil && n.Obj != nil {
		c := n.Cfg
		rec.IssuerSP, rec.IssuerSPVer, rec.IssuerSPCfg = n.Idx, n.Version, &c
	}
	s.w.noteState(se)
	se.ID = s.w.sessionID(se.Idx)
	if s.w.cfg.TenantSessions {
		// per-tenant counter: the same id exists in several tenants
		se.Tenant = provider.IssuerFromContext(ctx)
		n := 0
		for _, o := range s.w.sessions {
			if o.Tenant == se.Tenant {
				n++
			}
		}
		se.ID = fmt.Sprintf("ar%d-t", n)
	}
	s.w.sessions = append(s.w.sessions, se)
	snap := *se
	s.w.mu.Unlock()
	rec.Snap = &snap
	rec.Ret = se.ID
	return &AuthReqSnap{s: snap}, nil
}

// typedNil: storage flavour — the error comes with a nil pointer of the record type inside the interface value, as in
//
//	var r *record; if err := row.Scan(...); err != nil { return r, err }
//
// The interface value is then not nil although nothing can be read from it.
func (s *simStorage) typedNil() models.AuthRequestInt {
	s.w.probe("storage_error_with_typed_nil_record")
	var r *AuthReqSnap
	return r
}

func (s *simStorage) AuthRequestByID(ctx context.Context, id string) (models.AuthRequestInt, error) {
	t, rec, fault := s.enter(ctx, "AuthRequestByID", id)
	defer s.leave(t, rec)
	if isErrFault(fault) {
		rec.Err = injectedErr(fault).Error()
		if s.w.cfg.TypedNil {
			return s.typedNil(), injectedErr(fault)
		}
		return nil, injectedErr(fault)
	}
	s.w.mu.Lock()
	var found *Session
	otherTenant := false
	for _, se := range s.w.sessions {
		if se.ID == id && !se.Deleted {
			if s.w.cfg.TenantSessions && se.Tenant != "" && se.Tenant != provider.IssuerFromContext(ctx) {
				otherTenant = true
				continue
			}
			found = se
		}
	}
	var snap Session
	if found != nil {
		snap = *found
	}
	s.w.mu.Unlock()
	if otherTenant {
		s.w.probe("same_id_exists_in_another_tenant")
	}
	if found == nil {
		rec.Err = "not found"
		if s.w.cfg.TypedNil {
			return s.typedNil(), fmt.Errorf("sim: auth request not found")
		}
		return nil, fmt.Errorf("sim: auth request not found")
	}
	rec.Snap = &snap
	rec.Ret = fmt.Sprintf("session%d done=%v", snap.Idx, snap.DoneFlag)
	if s.w.cfg.LiveRecords && shadowFrom(ctx) == nil {
		s.w.probe("live_record_handed_out")
		return &AuthReqSnap{s: snap, live: found, w: s.w}, nil
	}
	return &AuthReqSnap{s: snap}, nil
}

func (w *World) setUser(u *UserCfg, set models.AttributeSetter) {
	if u.Email != "" {
		set.SetEmail(u.Email)
	}
	if u.FullName != "" {
		set.SetFullName(u.FullName)
	}
	if u.GivenName != "" {
		set.SetGivenName(u.GivenName)
	}
	if u.Surname != "" {
		set.SetSurname(u.Surname)
	}
	if u.UID != "" {
		set.SetUserID(u.UID)
	}
	if u.Username != "" {
		set.SetUsername(u.Username)
	}
	for k, c := range u.Custom {
		vals := append([]string(nil), c.Values...)
		if w.cfg.OwnSlices {
			for i := range w.cfg.Users {
				if &w.cfg.Users[i] == u && i < len(w.userVals) && k < len(w.userVals[i]) {
					vals = w.userVals[i][k]
					w.probe("storage_passed_its_own_value_slice")
				}
			}
		}
		set.SetCustomAttribute(c.Name, c.Friendly, c.Format, vals)
	}
}

func (s *simStorage) SetUserinfoWithUserID(ctx context.Context, applicationID string, userinfo models.AttributeSetter, userID string, attributes []int) error {
	t, rec, fault := s.enter(ctx, "SetUserinfoWithUserID", applicationID, userID)
	defer s.leave(t, rec)
	if isErrFault(fault) {
		rec.Err = injectedErr(fault).Error()
		return injectedErr(fault)
	}
	for i := range s.w.cfg.Users {
		if s.w.cfg.Users[i].ID == userID && fault == "partial_err" {
			rec.UserIdx = i
			s.w.partialUser(&s.w.cfg.Users[i], userinfo)
			rec.Err = errInjected.Error()
			return errInjected
		}
		if s.w.cfg.Users[i].ID == userID {
			rec.UserIdx = i
			rec.Ret = fmt.Sprintf("user%d", i)
			s.w.setUser(&s.w.cfg.Users[i], userinfo)
			return nil
		}
	}
	rec.Err = "not found"
	return fmt.Errorf("sim: unknown user")
}

func (s *simStorage) SetUserinfoWithLoginName(ctx context.Context, userinfo models.AttributeSetter, loginName string, attributes []int) error {
	t, rec, fault := s.enter(ctx, "SetUserinfoWithLoginName", loginName)
	defer s.leave(t, rec)
	if isErrFault(fault) {
		rec.Err = injectedErr(fault).Error()
		return injectedErr(fault)
	}
	for i := range s.w.cfg.Users {
		if s.w.cfg.Users[i].LoginName == loginName && fault == "partial_err" {
			rec.UserIdx = i
			s.w.partialUser(&s.w.cfg.Users[i], userinfo)
			rec.Err = errInjected.Error()
			return errInjected
		}
		if s.w.cfg.Users[i].LoginName == loginName {
			rec.UserIdx = i
			rec.Ret = fmt.Sprintf("user%d", i)
			s.w.setUser(&s.w.cfg.Users[i], userinfo)
			return nil
		}
	}
	rec.Err = "not found"
	return fmt.Errorf("sim: unknown login name")
}

func (s *simStorage) Health(ctx context.Context) error {
	t, rec, fault := s.enter(ctx, "Health")
	defer s.leave(t, rec)
	if isErrFault(fault) || !s.w.healthy {
		rec.Err = injectedErr(fault).Error()
		return injectedErr(fault)
	}
	return nil
}

// ---------------------------------------------------------------------------
// provider construction from the plan's configuration

func buildProvider(c *IDPCfg, st provider.Storage) (*provider.Provider, error) {
	ep := func(e EndpointCfg) *provider.Endpoint {
		if !e.Set {
			return nil
		}
		var x provider.Endpoint
		if e.URL != "" {
			x = provider.NewEndpointWithURL(e.Path, e.URL)
		} else {
			x = provider.NewEndpoint(e.Path)
		}
		return &x
	}
	idpc := &provider.IdentityProviderConfig{
		SignatureAlgorithm:     c.SigAlg,
		EncryptionAlgorithm:    c.EncAlg,
		WantAuthRequestsSigned: c.WantSigned,
		Insecure:               c.Insecure,
		Endpoints: &provider.EndpointConfig{
			Certificate: ep(c.Cert), Callback: ep(c.Callback), SingleSignOn: ep(c.SSO), SingleLogOut: ep(c.SLO), Attribute: ep(c.Attr),
		},
	}
	if c.ValidUntilS != 0 || c.CacheDuration != "" || c.ErrorURL != "" {
		idpc.MetadataIDPConfig = &provider.MetadataIDPConfig{ValidUntil: time.Duration(c.ValidUntilS) * time.Second, CacheDuration: c.CacheDuration, ErrorURL: c.ErrorURL}
	}
	conf := &provider.Config{IDPConfig: idpc, Metadata: ep(c.Metadata)}
	if c.MetaSigAlg != "" {
		conf.MetadataConfig = &provider.MetadataConfig{SignatureAlgorithm: c.MetaSigAlg}
	}
	if c.Org != nil {
		conf.Organisation = &provider.Organisation{Name: c.Org.Name, DisplayName: c.Org.DisplayName, URL: c.Org.URL}
	}
	if c.Contact != nil {
		conf.ContactPerson = &provider.ContactPerson{ContactType: md.ContactTypeType(c.Contact.Type), Company: c.Contact.Company,
			GivenName: c.Contact.GivenName, SurName: c.Contact.SurName, EmailAddress: c.Contact.Email, TelephoneNumber: c.Contact.Phone}
	}
	var issuer func(bool) (provider.IssuerFromRequest, error)
	switch c.IssuerKind {
	case "host":
		issuer = provider.IssuerFromHost(c.Issuer)
	case "forwarded":
		issuer = provider.IssuerFromForwardedOrHost(c.Issuer)
	case "header":
		issuer = provider.IssuerFromForwardedOrHost(c.Issuer, provider.WithIssuerFromCustomHeaders(append([]string(nil), c.Headers...)...))
	default:
		issuer = provider.StaticIssuer(c.Issuer)
	}
	var opts []provider.Option
	if c.Insecure {
		opts = append(opts, provider.WithAllowInsecure())
	}
	if c.TimeFormat != "" {
		opts = append(opts, provider.WithCustomTimeFormat(c.TimeFormat))
	}
	return provider.NewProvider(st, issuer, conf, opts...)
}
