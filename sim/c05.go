package sim

// C05 — unsigned or forged AuthnRequests are never accepted when signing is required.
// C06 — accepted AuthnRequests satisfy every validity condition.
// C07 — conformant requests from registered service providers are accepted.

import (
	"crypto/rsa"
	"encoding/base64"
	"fmt"
	"regexp"
	"strings"
)

// redirectSigVerifies: does the Signature parameter verify under pub over the submitted SAMLRequest / RelayState / SigAlg?
// First over the raw octets actually sent (§3.4.4.1); then, because a receiver that re-encodes the decoded values acts on the
// same content, over every standard percent-encoding of the decoded values.
func redirectSigVerifies(t *Task, v *SubView, pub *rsa.PublicKey) bool {
	raw := t.Sent.RawQuery
	if t.Sent.Method == "POST" && strings.HasPrefix(t.Sent.ContentType, "application/x-www-form-urlencoded") {
		raw = string(t.Sent.Body)
		if t.Sent.RawQuery != "" {
			raw += "&" + t.Sent.RawQuery
		}
	}
	if VerifyRedirectQuery(raw, "SAMLRequest", pub) == nil {
		return true
	}
	h, ok := hashFor(v.SigAlg)
	if !ok {
		return false
	}
	sv, err := base64.StdEncoding.DecodeString(v.Sig)
	if err != nil {
		return false
	}
	for style := 0; style <= 4; style++ {
		signed := "SAMLRequest=" + pctEncode(v.Request, style)
		if v.Relay != "" {
			signed += "&RelayState=" + pctEncode(v.Relay, style)
		}
		signed += "&SigAlg=" + pctEncode(v.SigAlg, style)
		if rsa.VerifyPKCS1v15(pub, h, sum(h, []byte(signed)), sv) == nil {
			return true
		}
	}
	return false
}

func embeddedSigBears(root *Node) bool {
	for _, sg := range root.Childs(NSDS, "Signature") {
		if stripWS(sg.Child(NSDS, "SignatureValue").TextContent()) != "" {
			return true
		}
	}
	return false
}

func oracleC05(r *Result) {
	w := r.World
	for _, t := range r.Tasks {
		if t.Msg.Kind != "sso" || t.Abandoned || t.Panic != "" || t.Reply == nil {
			continue
		}
		ps := persisted(t)
		if len(ps) == 0 {
			if t.Sent.Signed {
				w.probe("signed_request_rejected")
			}
			continue
		}
		w.probe("sso_accepted")
		rec := firstCall(t, "GetEntityByID")
		if rec == nil || rec.SPCfg == nil {
			r.violate("C05 accepted-without-sp", "C05:sso:accepted-without-registered-sp", "acceptance requires a registered service provider", callTrace(t), t.ID)
			continue
		}
		cfg := rec.SPCfg
		v := viewSubmitted(t, "AuthnRequest")
		if v.Root == nil {
			continue // C06's business
		}
		required := isXSTrue(cfg.AuthnRequestsSigned) || isXSTrue(w.cfg.IDP.WantSigned)
		var pub *rsa.PublicKey
		if cfg.HasCert {
			pub = certPub(Keys[mod(cfg.Key, NumKeys)].Cert)
		}
		bears, verifies := false, false
		if v.Binding == "redirect" {
			bears = v.Sig != ""
			verifies = bears && pub != nil && redirectSigVerifies(t, v, pub)
		} else {
			bears = embeddedSigBears(v.Root)
			if bears && pub != nil {
				_, err := VerifyEnveloped(v.Root, pub)
				verifies = err == nil
			}
		}
		reqClass := "not-required"
		if required {
			reqClass = "required"
			w.probe("accepted_while_signing_required")
		}
		if bears && verifies {
			w.probe("accepted_with_valid_signature")
		}
		if required && !verifies {
			why := "unsigned"
			if bears {
				why = "bad-signature"
			}
			form := fmt.Sprintf("sp=%q idp=%q", cfg.AuthnRequestsSigned, w.cfg.IDP.WantSigned)
			key := "C05:sso:" + v.Binding + ":accepted-" + why + "-although-required"
			if !isTrueWord(cfg.AuthnRequestsSigned) && !isTrueWord(w.cfg.IDP.WantSigned) {
				key += ":required-only-by-xs-boolean-1"
			}
			r.violate("C05 accepted-without-valid-signature", key,
				"signing is required ("+form+"): the request is accepted only with a signature that verifies under the registered certificate",
				fmt.Sprintf("accepted (%s), persisted as %s; sent: %s", why, ps[0].Snap.ID, t.Sent.Summary), t.ID)
			continue
		}
		if bears && !verifies {
			shape := ""
			if v.Binding != "redirect" && len(v.Root.Childs(NSDS, "Signature")) > 1 {
				shape = ":several-signature-elements" // which of several ds:Signature children a receiver looks at is its own business; see known findings
			}
			r.violate("C05 accepted-with-bad-signature", "C05:sso:"+v.Binding+":accepted-with-non-verifying-signature:"+reqClass+shape,
				"a request bearing a non-empty signature value that does not verify is never accepted",
				fmt.Sprintf("accepted, persisted as %s; sent: %s tamper=%v", ps[0].Snap.ID, t.Sent.Summary, t.Msg.Tamper), t.ID)
			continue
		}
		if v.Binding == "redirect" && embeddedSigBears(v.Root) {
			// strict reading: a signature value in the message itself that nobody verified
			if pub == nil {
				r.violate("C05 accepted-with-unverified-embedded-signature", "C05:sso:redirect:embedded-signature-not-verified:"+reqClass,
					"a request bearing a non-empty signature value that does not verify is never accepted", t.Sent.Summary, t.ID)
			} else if _, err := VerifyEnveloped(v.Root, pub); err != nil {
				r.violate("C05 accepted-with-unverified-embedded-signature", "C05:sso:redirect:embedded-signature-not-verified:"+reqClass,
					"a request bearing a non-empty signature value that does not verify is never accepted (here: a ds:Signature embedded in a Redirect-binding message)",
					fmt.Sprintf("%v; sent: %s", err, t.Sent.Summary), t.ID)
			}
		}
		// the IdP acts on exactly what was signed: id and RelayState it persisted
		if verifies {
			if id := v.Root.Attr("ID"); ps[0].Snap.AuthRequestID != id {
				r.violate("C05 acted-on-other-content", "C05:sso:"+v.Binding+":persisted-id-differs-from-signed",
					"the persisted request is the signed one", fmt.Sprintf("signed ID %q, persisted %q", id, ps[0].Snap.AuthRequestID), t.ID)
			}
			if v.Binding == "redirect" && ps[0].Snap.RelayState != v.Relay {
				r.violate("C05 acted-on-other-content", "C05:sso:redirect:persisted-relaystate-differs-from-signed",
					"the persisted RelayState is the signed one", fmt.Sprintf("signed %q, persisted %q", v.Relay, ps[0].Snap.RelayState), t.ID)
			}
		}
	}
}

func isTrueWord(s string) bool { return strings.Trim(s, " \t\r\n") == "true" }

// ---------------------------------------------------------------------------
// C06

func oracleC06(r *Result) {
	w := r.World
	for _, t := range r.Tasks {
		if t.Msg.Kind != "sso" || t.Abandoned || t.Panic != "" || t.Reply == nil {
			continue
		}
		ps := persisted(t)
		if len(ps) == 0 {
			if !t.Sent.Conformant {
				w.probe("nonconformant_rejected")
			}
			continue
		}
		w.probe("sso_accepted")
		bad := func(cond, expected, observed string) {
			r.violate("C06 "+cond, "C06:sso:accepted-although:"+cond, expected, observed+"; sent: "+t.Sent.Summary, t.ID)
		}
		v := viewSubmitted(t, "AuthnRequest")
		if v.SigAlg != "" && v.Sig == "" {
			bad("sigalg-without-signature", "a SigAlg without a Signature is rejected", "SigAlg="+v.SigAlg)
		}
		if v.DecodeErr != "" || v.Root == nil {
			bad("undecodable:"+decodeErrClass(v.DecodeErr), "the request decodes (base64, optional DEFLATE, well-formed XML) as an AuthnRequest", v.DecodeErr)
			continue
		}
		if v.Lenient {
			bad("not-well-formed:"+v.LenientWhy, "the request is one well-formed XML document", v.LenientWhy)
		}
		root := v.Root
		if root.Attr("ID") == "" {
			bad("id-missing", "ID is non-empty", "")
		}
		if root.Attr("Version") == "" {
			bad("version-missing", "Version is non-empty", "")
		}
		rec := firstCall(t, "GetEntityByID")
		issuers := root.Childs(NSA, "Issuer")
		switch {
		case len(issuers) == 0:
			bad("issuer-absent", "Issuer is present", "")
		case rec == nil || rec.SPCfg == nil:
			bad("issuer-unregistered", "Issuer equals the entity ID of a registered service provider", issuers[0].TextContent())
		default:
			match := false
			for _, is := range issuers {
				if is.TextContent() == rec.SPCfg.Entity {
					match = true
				}
			}
			if !match {
				bad("issuer-mismatch", "Issuer equals the entity ID of the registered service provider it was resolved to ("+rec.SPCfg.Entity+")", fmt.Sprintf("%q", issuers[0].TextContent()))
			}
		}
		if d := root.Attr("Destination"); d != "" {
			adv := w.IDPModel.Location(EPSSO, t.Sent.IdPIssuer)
			if d != adv {
				bad("destination-not-advertised", "Destination, when present, is the advertised SSO location "+adv, d)
			}
		}
		for _, c := range root.Childs(NSA, "Conditions") {
			if nb := c.Attr("NotBefore"); nb != "" {
				tt, ok := parseXSDateTime(nb)
				if !ok {
					if tt, ok = parseTimeCommaLenient(nb); ok {
						bad("notbefore-unparseable:comma-as-decimal-separator", "unparseable timestamps are rejected", nb)
					} else {
						bad("notbefore-unparseable", "unparseable timestamps are rejected", nb)
					}
				}
				if ok {
					if tt.After(t.TReturn) {
						bad("before-notbefore", "NotBefore <= now", fmt.Sprintf("NotBefore %s, request interval [%s, %s]", nb, t.TInvoke.UTC().Format(tsFmt), t.TReturn.UTC().Format(tsFmt)))
					}
					if tt.Equal(t.TInvoke) && t.TInvoke.Equal(t.TReturn) {
						w.probe("now_equals_notbefore")
					}
				}
			}
			if na := c.Attr("NotOnOrAfter"); na != "" {
				tt, ok := parseXSDateTime(na)
				if !ok {
					if tt, ok = parseTimeCommaLenient(na); ok {
						bad("notonorafter-unparseable:comma-as-decimal-separator", "unparseable timestamps are rejected", na)
					} else {
						bad("notonorafter-unparseable", "unparseable timestamps are rejected", na)
					}
				}
				if ok && !tt.After(t.TInvoke) {
					bad("at-or-after-notonorafter", "now < NotOnOrAfter", fmt.Sprintf("NotOnOrAfter %s, request interval [%s, %s]", na, t.TInvoke.UTC().Format(tsFmt), t.TReturn.UTC().Format(tsFmt)))
				}
			}
		}
	}
	// reach probes: rejected exactly at the boundary
	for _, t := range r.Tasks {
		if t.Msg.Kind != "sso" || t.Sent == nil || t.Reply == nil || len(persisted(t)) > 0 {
			continue
		}
		if t.Sent.NotOnOrAfter != nil && truncFrac(*t.Sent.NotOnOrAfter, t.Msg.Style.Frac).Equal(t.TInvoke) {
			w.probe("now_equals_notonorafter")
		}
	}
}

// decodeErrClass: a stable class for a decode error ("not well-formed: duplicate attribute :ID" → "duplicate-attribute").
func decodeErrClass(e string) string {
	e = strings.TrimPrefix(e, "not well-formed: ")
	var words []string
	for _, wd := range strings.Fields(e) {
		if strings.ContainsAny(wd, ":0123456789\"'<>") || len(words) == 3 {
			break
		}
		words = append(words, strings.ToLower(wd))
	}
	if len(words) == 0 {
		return "other"
	}
	return strings.Join(words, "-")
}

const tsFmt = "2006-01-02T15:04:05.999999999Z"

// ---------------------------------------------------------------------------
// C07

var reVar = regexp.MustCompile(`[0-9a-f]{8}-[0-9a-f-]{27}|_[A-Za-z0-9]+|https?://[^ "]+|[0-9]+`)

func reasonClass(t *Task) string {
	msg := ""
	if t.Reply.Msg != nil {
		msg = t.Reply.Msg.StatusMessage
	} else {
		msg = strings.TrimSpace(string(t.Reply.Body))
	}
	msg = reVar.ReplaceAllString(msg, "#")
	if len(msg) > 70 {
		msg = msg[:70]
	}
	return strings.ReplaceAll(strings.TrimSpace(msg), " ", "-")
}

// styleClass names the serialisation freedoms a rejected conformant message used (for finding keys).
func styleClass(t *Task) string {
	m := t.Msg
	var c []string
	if m.Kind == "attrq" {
		if m.Sign != "" {
			return "signed"
		}
		return "unsigned"
	}
	if m.Sign != "" {
		c = append(c, "signed")
		if m.Binding == "redirect" {
			switch mod(m.Style.Enc, 5) {
			case EncLower:
				c = append(c, "lowercase-hex")
			case EncPct20:
				c = append(c, "pct20")
			}
		} else {
			if m.Style.KeyInfo {
				c = append(c, "keyinfo")
				if m.Style.WrapCert {
					c = append(c, "wrapped-cert")
				}
			} else {
				c = append(c, "no-keyinfo")
			}
		}
	} else {
		c = append(c, "unsigned")
	}
	if m.Kind == "slo" && m.Binding == "redirect" && m.Style.EncodingP == 0 {
		c = append(c, "no-samlencoding-param")
	}
	return strings.Join(c, "+")
}

func oracleC07(r *Result) {
	w := r.World
	for _, t := range r.Tasks {
		k := t.Msg.Kind
		if k != "sso" && k != "slo" && k != "attrq" {
			continue
		}
		if t.Abandoned || t.Panic != "" || t.Reply == nil || t.Sent == nil || !t.Sent.Conformant {
			continue
		}
		if len(storageFaults(t)) > 0 || bodyFaultFired(t) || writerFaultFired(t) || t.AdvDuring || t.Cancelled || t.Msg.DeadlineNs > 0 {
			continue
		}
		rec := firstCall(t, "GetEntityByID")
		if rec != nil && (rec.SPCfg == nil || rec.SPVer != t.Sent.SPVer) {
			continue // the registration changed between sending and lookup
		}
		sp := w.spNode(t.Msg.SP)
		if sp.Idx < 0 {
			continue
		}
		w.probe("conformant_" + k)
		bind := t.Msg.Binding
		accepted := func() {
			w.probe("conformant_" + k + "_accepted")
			if tf := t.Msg.Style.TextForm; tf != 0 {
				w.probe([]string{"", "accepted_with_cdata_text", "accepted_with_character_references", "accepted_with_comment_inside_text", "accepted_with_cdata_text"}[mod(tf, 5)])
				if t.Sent.Signed && bind != "redirect" {
					w.probe("accepted_signed_with_nonplain_text_form")
				}
			}
			if t.Msg.Style.B64Lines != 0 && bind == "post" {
				w.probe("accepted_post_base64_with_line_breaks")
			}
		}
		switch k {
		case "sso":
			if rec != nil && rec.SPCfg != nil && !supportedOnly(rec.SPCfg) {
				continue // an SP whose consumer endpoints the IdP cannot serve may be refused (C08)
			}
			if len(persisted(t)) == 1 && t.Reply.Status == 303 {
				accepted()
				continue
			}
			r.violate("C07 conformant-authnrequest-rejected", "C07:sso:"+bind+":"+styleClass(t)+":"+reasonClass(t),
				"a conformant AuthnRequest of a registered SP is persisted and sent to login", replySummary(t)+" sent: "+t.Sent.Summary, t.ID)
		case "slo":
			if t.Reply.Msg != nil && t.Reply.Msg.Kind == "LogoutResponse" && t.Reply.Msg.Success {
				accepted()
				continue
			}
			r.violate("C07 conformant-logoutrequest-rejected", "C07:slo:"+bind+":"+styleClass(t)+":"+reasonClass(t),
				"a conformant LogoutRequest of a registered SP is answered with status Success", replySummary(t)+" sent: "+t.Sent.Summary, t.ID)
		case "attrq":
			if t.Reply.IsSuccess() {
				accepted()
				continue
			}
			r.violate("C07 conformant-attributequery-rejected", "C07:attrq:soap:"+styleClass(t)+":"+reasonClass(t),
				"a conformant AttributeQuery of a registered SP is answered with status Success", replySummary(t)+" sent: "+t.Sent.Summary, t.ID)
		}
	}
}

func (g G) planSSO(prop string) *Plan {
	o := &mixOpts{family: "sso-acceptance",
		world: worldOpts{nilUnknownPct: 12, maxSPs: 3, maxUsers: 2, maxReplicas: 2, hardPct: 10, hardURLPct: 25, signReqVariety: true, parkVariety: true, noCertPct: 15, expiredSPCertPct: 10, issuerVariety: true,
			endpointVariety: true, skewPct: 30},
		wSSO: 50, wCallback: 2, wSLO: 2, wMeta: 3, wAttrQ: 2, wCert: 1, wResume: 25, wFinish: 12, wAdvance: 4, wRereg: 3, wDelSP: 1, wRestart: 1,
		devPct: 30, tamperPct: 40, timePct: 25, bodyFaultPct: 4, rogueSPPct: 6, hostVariety: true, wCancel: 3, deadlinePct: 6,
		minSteps: 3, maxSteps: 30, maxPre: 0, autoFinishPct: 40}
	if prop == "C06" {
		o.devPct, o.tamperPct, o.timePct = 55, 15, 45
	}
	if prop == "C05" {
		o.faultPcts = []int{0, 0, 0, 12}
	}
	p := g.planMix(prop, o)
	for i := range p.Steps {
		// POST bodies may legally arrive in pieces (tiny reads, or two segments cut at or between parameters)
		if m := p.Steps[i].Msg; m != nil && m.Kind == "sso" && m.Binding == "post" && m.BodyFault == "" && g.chance(fmt.Sprintf("pieces%d", i), 30) {
			m.BodyFault, m.BodyOff = g.pick(fmt.Sprintf("pieces%d.k", i), "split", "split", "short"), g.intn(fmt.Sprintf("pieces%d.o", i), 4000)
		}
	}
	if prop == "C06" && p.World.IDP.Metadata.URL != "" {
		// the metadata document is published under an external URL: some requests are addressed to the endpoint's path below
		// that URL's base (not an advertised location unless the endpoint itself is published there), usually after the
		// document has been fetched through this instance
		for i := range p.Steps {
			if m := p.Steps[i].Msg; m != nil && m.Kind == "sso" && len(m.Tamper) == 0 && g.chance(fmt.Sprintf("mdbase%d", i), 30) {
				m.DestMode = "metadata-base"
			}
		}
		if g.chance("mdfirst", 70) {
			md := &MsgSpec{Kind: "metadata", TLS: g.chance("mdfirst.tls", 35)}
			if p.World.IDP.IssuerKind != "static" && p.World.IDP.IssuerKind != "" {
				g.drawHost("mdfirst.host", &p.World.IDP, g.intn("mdfirst.hosti", 3), md)
			}
			p.Steps = append([]Step{{K: "send", Msg: md}, {K: "finish", Pick: 99}}, p.Steps...)
		}
	}
	if prop == "C05" {
		// an SP that registered a certificate for encryption only (or next to its signing certificate) signs with that key
		for i := range p.Steps {
			if m := p.Steps[i].Msg; m != nil && m.Kind == "sso" && m.SP >= 0 {
				if c := &p.World.SPs[mod(m.SP, len(p.World.SPs))]; c.EncKey > 0 && c.EncKey != c.Key && g.chance(fmt.Sprintf("enckey%d", i), 35) {
					m.Sign, m.SignKey = g.pick(fmt.Sprintf("enckey%d.alg", i), "rsa-sha256", "rsa-sha1"), c.EncKey
					m.Style.KeyInfo = true
				}
			}
		}
	}
	if prop == "C05" {
		// replay: the untampered message is delivered (and answered) first, the tampered copy with the very same signature afterwards
		var out []Step
		for i := range p.Steps {
			st := p.Steps[i]
			if m := st.Msg; st.K == "send" && m != nil && m.Kind == "sso" && m.Sign != "" && len(m.Tamper) > 0 && g.chance(fmt.Sprintf("replayfirst%d", i), 35) {
				orig := *m
				orig.Tamper, orig.Method, orig.DelayNs, orig.DelayAnchor = nil, "", 0, ""
				out = append(out, Step{K: "send", Msg: &orig}, Step{K: "finish", Pick: 99})
			}
			out = append(out, st)
		}
		p.Steps = out
	}
	return p
}

func (g G) planC07() *Plan {
	o := &mixOpts{family: "conformant-fault-free",
		world: worldOpts{maxSPs: 3, maxUsers: 3, maxReplicas: 2, hardPct: 10, hardURLPct: 25, signReqVariety: true, parkVariety: true, noCertPct: 10, issuerVariety: true,
			endpointVariety: true, customAttrs: true, sloVariety: true, acsSupportedVariety: true},
		wSSO: 40, wSLO: 20, wAttrQ: 20, wCallback: 5, wMeta: 2, wResume: 25, wFinish: 12, wComplete: 4, wAdvance: 3, wRotate: 2,
		timePct: 20, hostVariety: true, minSteps: 3, maxSteps: 30, maxPre: 1, autoFinishPct: 40, callbackAfter: 30,
		// some runs carry storage faults: a request hit by one is not judged, every other conformant request of the run still is —
		// a fault met by one request must not make the IdP refuse the next (state poisoned by a failed lookup, a stuck limiter …)
		faultPcts: []int{0, 0, 0, 12, 25}}
	p := g.planMix("C07", o)
	for i := range p.Steps {
		m := p.Steps[i].Msg
		if m == nil {
			continue
		}
		lab := fmt.Sprintf("c07.%d", i)
		// bodies may legally arrive in small pieces
		if (m.Kind == "attrq" || m.Binding == "post") && g.chance(lab+".short", 30) {
			m.BodyFault, m.BodyOff = g.pick(lab+".pieces", "short", "split"), g.intn(lab+".shortk", 4000)
		}
		// RelayState is opaque to the IdP: return URLs, key=value pairs, base64 padding, blanks (also leading / trailing ones, which a
		// receiver that trims form values would no longer verify)
		if (m.Kind == "sso" || m.Kind == "slo") && g.chance(lab+".relay", 35) {
			m.HasRelay = true
			m.RelayState = g.pick(lab+".relayv", "https://sp.example/return?a=1&b=2", "k=v;x=y", "a+b@c,d$e", "dGVzdA==", "two words", "tab=2&lang=de", "ümlaut/é", "a:b", "~._-!*'()", "trailing blank ", " leading blank", "ends with a line break\r\n", "\ttabs\t", "  ")
		}
	}
	return p
}
