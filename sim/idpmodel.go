package sim

// Independent model of the IdP's configuration → issuer / entityID / endpoint
// locations / routes, written from the documented behaviour (property C19's
// and C11's statements), not from provider.go.

import (
	"net/http"
	"strings"
)

type IDPModel struct{ c *IDPCfg }

func NewIDPModel(c *IDPCfg) *IDPModel { return &IDPModel{c: c} }

const (
	EPSSO      = "sso"
	EPSLO      = "slo"
	EPAttr     = "attr"
	EPCallback = "callback"
	EPCert     = "cert"
	EPMetadata = "metadata"
)

func (m *IDPModel) ep(kind string) (EndpointCfg, string) {
	switch kind {
	case EPSSO:
		return m.c.SSO, "SSO"
	case EPSLO:
		return m.c.SLO, "SLO"
	case EPAttr:
		return m.c.Attr, "attribute"
	case EPCallback:
		return m.c.Callback, "login"
	case EPCert:
		return m.c.Cert, "certificate"
	case EPMetadata:
		return m.c.Metadata, "/metadata"
	}
	return EndpointCfg{}, ""
}

// Route is the path the router serves for that endpoint.
func (m *IDPModel) Route(kind string) string {
	e, def := m.ep(kind)
	p := def
	if e.Set {
		p = e.Path
	}
	return "/" + strings.TrimPrefix(p, "/")
}

// forwardedHost returns the first host parameter of the given header values (RFC 7239 syntax, simple forms only).
func forwardedHost(vals []string) (string, bool) {
	for _, v := range vals {
		for _, el := range strings.Split(v, ",") {
			for _, pair := range strings.Split(el, ";") {
				k, val, ok := strings.Cut(strings.TrimSpace(pair), "=")
				if ok && strings.EqualFold(k, "host") {
					val = strings.Trim(val, `"`)
					return val, true
				}
			}
		}
	}
	return "", false
}

// Issuer is the issuer in effect for a request with this Host and headers.
func (m *IDPModel) Issuer(host string, hdr http.Header) string {
	switch m.c.IssuerKind {
	case "host", "forwarded", "header":
		h := host
		var names []string
		switch m.c.IssuerKind {
		case "forwarded":
			names = []string{"Forwarded"}
		case "header":
			names = m.c.Headers
		}
		for _, n := range names {
			if fh, ok := forwardedHost(hdr[http.CanonicalHeaderKey(n)]); ok {
				h = fh
				break
			}
		}
		scheme := "https"
		if m.c.Insecure {
			scheme = "http"
		}
		p := m.c.Issuer
		if p != "" && !strings.HasPrefix(p, "/") {
			p = "/" + p
		}
		return scheme + "://" + h + p
	default:
		return m.c.Issuer
	}
}

// Location is the absolute location advertised for an endpoint under the given issuer.
func (m *IDPModel) Location(kind, issuer string) string {
	e, _ := m.ep(kind)
	if e.Set && e.URL != "" {
		return e.URL
	}
	return strings.TrimSuffix(issuer, "/") + m.Route(kind)
}

// External reports whether the endpoint is configured with an external URL (then no statement about routing is made).
func (m *IDPModel) External(kind string) bool {
	e, _ := m.ep(kind)
	return e.Set && e.URL != ""
}

func (m *IDPModel) EntityID(issuer string) string { return m.Location(EPMetadata, issuer) }

// WantSignedTrue: the IdP configuration demands signed requests (any xs:boolean true form).
func (m *IDPModel) WantSignedTrue() bool { return isXSTrue(m.c.WantSigned) }
