package sim

// C08 — one SSO request, one outcome; rejected requests leave no trace.

import (
	"fmt"
	"strings"
)

// persisted returns the successful CreateAuthRequest calls of a task.
func persisted(t *Task) []*CallRec {
	var out []*CallRec
	for i := range t.Calls {
		c := &t.Calls[i]
		if c.Op == "CreateAuthRequest" && c.Snap != nil && c.Err == "" {
			out = append(out, c)
		}
	}
	return out
}

// acsClass describes the ACS registration of the SP a task resolved (for finding keys).
func acsClass(t *Task) string {
	c := firstCall(t, "GetEntityByID")
	if c == nil || c.SPCfg == nil {
		return "nosp"
	}
	seen := map[string]bool{}
	for _, a := range c.SPCfg.ACS {
		switch a.Binding {
		case BindPost, BindRedirect:
			seen["supported"] = true
		default:
			seen["unsupported"] = true
		}
	}
	switch {
	case seen["supported"] && seen["unsupported"]:
		return "mixed-acs"
	case seen["unsupported"]:
		return "only-unsupported-acs"
	}
	return "supported-acs"
}

func anySupported(c *SPCfg) bool {
	for _, a := range c.ACS {
		if a.Binding == BindPost || a.Binding == BindRedirect {
			return true
		}
	}
	return false
}

func bindingClass(b string) string {
	switch b {
	case BindPost:
		return "post"
	case BindRedirect:
		return "redirect"
	case BindArtifact:
		return "artifact"
	case BindPAOS:
		return "paos"
	case "":
		return "none"
	}
	return "other"
}

// replyShape classifies a reply for C08: "login-redirect", "saml-failure", "saml-success", "http-error", "empty", "malformed:<why>".
func replyShape(t *Task) string {
	r := t.Reply
	switch r.Kind {
	case RKRedirect:
		return "redirect"
	case RKEmpty:
		if r.Status >= 400 {
			return "http-error"
		}
		return "empty"
	case RKText:
		if r.Status >= 400 {
			return "http-error"
		}
		return "malformed:text-with-status-" + fmt.Sprint(r.Status)
	case RKForm, RKRedirectSAML, RKXML, RKSOAP:
		if r.DecodeErr != "" {
			return "malformed:" + strings.SplitN(r.DecodeErr, ":", 2)[0]
		}
		if r.NMessages != 1 {
			return fmt.Sprintf("malformed:%d-messages", r.NMessages)
		}
		if r.Form != nil && r.Form.NForms != 1 {
			return fmt.Sprintf("malformed:%d-forms", r.Form.NForms)
		}
		if r.Msg == nil {
			return "malformed:no-message"
		}
		if r.Msg.NStatus != 1 {
			return fmt.Sprintf("malformed:%d-status", r.Msg.NStatus)
		}
		if r.Msg.Success {
			return "saml-success"
		}
		return "saml-failure"
	}
	return "malformed:" + r.Kind
}

func oracleC08(r *Result) {
	w := r.World
	for _, t := range r.Tasks {
		if t.Msg.Kind != "sso" || t.Abandoned || t.Reply == nil || t.Panic != "" {
			continue
		}
		ps := persisted(t)
		cls := acsClass(t)
		if len(ps) > 1 {
			r.violate("C08 persisted-more-than-once", "C08:sso:persisted-twice:"+cls, "a request is persisted at most once",
				fmt.Sprintf("%d successful CreateAuthRequest calls by one request", len(ps)), t.ID)
			continue
		}
		if writerFaultFired(t) || t.Cancelled {
			continue // the client is gone; only the persist count is judged
		}
		shape := replyShape(t)
		if len(ps) == 1 {
			w.probe("sso_persisted")
			// registry model: the issuer's registration did not change while this request was served and not one of its
			// consumer endpoints uses a binding the IdP can answer with ⇒ the request cannot be answered and must not be persisted
			if c := ps[0]; c.IssuerSPCfg != nil && c.IssuerSP >= 0 && c.IssuerSP < len(t.SPVers0) && t.SPVers0[c.IssuerSP] == c.IssuerSPVer && !anySupported(c.IssuerSPCfg) {
				r.violate("C08 persisted-although-unanswerable", "C08:sso:persisted-although-unanswerable:registered-acs-all-unsupported",
					"a request that cannot be answered (every consumer endpoint registered for its issuer uses an unsupported binding) is never persisted",
					fmt.Sprintf("persisted as %s with (%s, %s); registered: %+v; reply: %s", c.Snap.ID, c.Snap.ACS, c.Snap.Binding, c.IssuerSPCfg.ACS, replySummary(t)), t.ID)
				continue
			}
			want := loginURLFor(ps[0].Snap.SP)(ps[0].Snap.ID)
			if ps[0].Snap.SP == -2 {
				want = ""
			}
			ok := t.Reply.Status == 303 && shape == "redirect" && (want == "" || t.Reply.Location == want)
			if !ok {
				r.violate("C08 persisted-but-not-redirected", "C08:sso:persisted-then-"+shape+":"+cls+":"+bindingClass(ps[0].Snap.Binding),
					"a persisted request is answered with 303 to the login URL of the identifier storage returned ("+want+")",
					fmt.Sprintf("persisted as %s (binding %s), reply: %s", ps[0].Snap.ID, ps[0].Snap.Binding, replySummary(t)), t.ID)
			}
			continue
		}
		w.probe("sso_not_persisted")
		switch shape {
		case "saml-failure", "http-error":
			// the single failure outcome
		case "redirect":
			if strings.HasPrefix(t.Reply.Location, "https://login.example/") {
				r.violate("C08 redirected-without-persisting", "C08:sso:login-redirect-without-persist:"+cls,
					"the browser is sent to login only for a persisted request", replySummary(t), t.ID)
			} else {
				r.violate("C08 reply-not-a-single-failure", "C08:sso:unpersisted-reply-redirect-without-message:"+cls,
					"an unpersisted request is answered by exactly one SAML Response with non-Success status or a plain HTTP error", replySummary(t), t.ID)
			}
		default:
			bind := "nobinding"
			if c := firstCall(t, "GetEntityByID"); c != nil && c.SPCfg != nil {
				_ = c
			}
			r.violate("C08 reply-not-a-single-failure", "C08:sso:unpersisted-reply-"+shape+":"+cls+":"+bind,
				"an unpersisted request is answered by exactly one SAML Response with non-Success status or a plain HTTP error (never empty, never several messages)",
				fmt.Sprintf("shape=%s %s body=%q", shape, replySummary(t), abbreviate(string(t.Reply.Body), 300)), t.ID)
		}
	}
}

func (g G) planC08() *Plan {
	o := &mixOpts{family: "sso-outcomes",
		world: worldOpts{maxSPs: 3, maxUsers: 2, maxReplicas: 2, hardPct: 10, hardURLPct: 25, acsVariety: true, signReqVariety: true, parkVariety: true, noCertPct: 15, issuerVariety: true},
		wSSO:  40, wCallback: 3, wSLO: 2, wMeta: 3, wAttrQ: 2, wCert: 1, wResume: 30, wFinish: 15, wAdvance: 3, wRereg: 5, wDelSP: 1, wRestart: 1,
		devPct: 35, tamperPct: 15, timePct: 15, faultPcts: []int{0, 0, 15, 30}, bodyFaultPct: 10, writeFaultPct: 5, rogueSPPct: 5, hostVariety: true, wCancel: 3, deadlinePct: 8,
		minSteps: 3, maxSteps: 30, maxPre: 1, autoFinishPct: 35, oddHostPct: 3}
	p := g.planMix("C08", o)
	// duplicate submission: the same request twice (two tasks, two outcomes) — at the end of the run, right after the original,
	// or while the original is inside its persist call (a browser double-submit)
	if g.chance("dup", 40) {
		how := g.intn("dup.how", 3)
		for i := range p.Steps {
			if p.Steps[i].K == "send" && p.Steps[i].Msg != nil && p.Steps[i].Msg.Kind == "sso" {
				cp := *p.Steps[i].Msg
				dup := Step{K: "send", Msg: &cp}
				switch how {
				case 0:
					p.Steps = append(p.Steps, dup)
				case 1:
					rest := append([]Step{dup}, p.Steps[i+1:]...)
					p.Steps = append(p.Steps[:i+1:i+1], rest...)
				default:
					// original up to (not into) CreateAuthRequest, then the duplicate runs as far as it gets, then both finish
					mid := []Step{{K: "until", Pick: -1, Op: "CreateAuthRequest"}, dup, {K: "finish", Pick: 99}, {K: "drain"}}
					rest := append(mid, p.Steps[i+1:]...)
					p.Steps = append(p.Steps[:i+1:i+1], rest...)
				}
				break
			}
		}
	}
	return p
}
