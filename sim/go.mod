module verif/sim

go 1.26.8

require (
	github.com/google/uuid v1.6.0
	github.com/zitadel/logging v0.5.0
	github.com/zitadel/saml v0.0.0
	golang.org/x/net v0.34.0
	pgregory.net/rapid v1.3.0
)

require (
	github.com/amdonov/xmlsig v0.1.0 // indirect
	github.com/beevik/etree v1.3.0 // indirect
	github.com/felixge/httpsnoop v1.0.3 // indirect
	github.com/gorilla/handlers v1.5.2 // indirect
	github.com/gorilla/mux v1.8.1 // indirect
	github.com/jonboulle/clockwork v0.2.2 // indirect
	github.com/muhlemmer/httpforwarded v0.1.0 // indirect
	github.com/russellhaering/goxmldsig v1.4.0 // indirect
	github.com/sirupsen/logrus v1.8.1 // indirect
	golang.org/x/exp v0.0.0-20230817173708-d852ddb80c63 // indirect
	golang.org/x/sys v0.29.0 // indirect
)

replace github.com/zitadel/saml => /repo
