package sim

// Oracle 2: Exclusive XML Canonicalization 1.0 (without comments) and an
// enveloped XML-DSig verifier / signer, written against the W3C texts and
// sharing no code with goxmldsig or amdonov/xmlsig.

import (
	"crypto"
	"crypto/rsa"
	"crypto/sha1"
	"crypto/sha256"
	"crypto/sha512"
	"crypto/x509"
	"encoding/base64"
	"fmt"
	"sort"
	"strings"
)

const (
	AlgRSASHA1   = "http://www.w3.org/2000/09/xmldsig#rsa-sha1"
	AlgRSASHA256 = "http://www.w3.org/2001/04/xmldsig-more#rsa-sha256"
	AlgRSASHA512 = "http://www.w3.org/2001/04/xmldsig-more#rsa-sha512"
	AlgSHA1      = "http://www.w3.org/2000/09/xmldsig#sha1"
	AlgSHA256    = "http://www.w3.org/2001/04/xmlenc#sha256"
	AlgSHA512    = "http://www.w3.org/2001/04/xmlenc#sha512"
	AlgEnveloped = "http://www.w3.org/2000/09/xmldsig#enveloped-signature"
	AlgExcC14N   = "http://www.w3.org/2001/10/xml-exc-c14n#"
	AlgExcC14NC  = "http://www.w3.org/2001/10/xml-exc-c14n#WithComments"
)

func escText(sb *strings.Builder, s string) {
	for i := 0; i < len(s); i++ {
		switch c := s[i]; c {
		case '&':
			sb.WriteString("&amp;")
		case '<':
			sb.WriteString("&lt;")
		case '>':
			sb.WriteString("&gt;")
		case '\r':
			sb.WriteString("&#xD;")
		default:
			sb.WriteByte(c)
		}
	}
}

func escAttr(sb *strings.Builder, s string) {
	for i := 0; i < len(s); i++ {
		switch c := s[i]; c {
		case '&':
			sb.WriteString("&amp;")
		case '<':
			sb.WriteString("&lt;")
		case '"':
			sb.WriteString("&quot;")
		case '\t':
			sb.WriteString("&#x9;")
		case '\n':
			sb.WriteString("&#xA;")
		case '\r':
			sb.WriteString("&#xD;")
		default:
			sb.WriteByte(c)
		}
	}
}

// ExcC14N canonicalises the subtree rooted at el, leaving out the element
// `exclude` (and its subtree) if non-nil. inclusive lists prefixes of the
// InclusiveNamespaces PrefixList ("#default" for the default namespace).
func ExcC14N(el *Node, exclude *Node, inclusive []string) []byte {
	var sb strings.Builder
	incl := map[string]bool{}
	for _, p := range inclusive {
		if p == "#default" {
			p = ""
		}
		incl[p] = true
	}
	excC14NRec(&sb, el, exclude, incl, map[string]string{})
	return []byte(sb.String())
}

func excC14NRec(sb *strings.Builder, el *Node, exclude *Node, incl map[string]bool, rendered map[string]string) {
	if el == exclude {
		return
	}
	if el.IsText {
		escText(sb, el.Text)
		return
	}
	// visibly utilised prefixes
	util := map[string]bool{el.Prefix: true}
	for _, a := range el.Attrs {
		if a.Prefix != "" && a.Prefix != "xml" {
			util[a.Prefix] = true
		}
	}
	// prefixes from the inclusive list are treated as in inclusive c14n: rendered when in scope
	for p := range incl {
		if _, ok := el.lookupNS(p); ok {
			if p == "" {
				// only when a default namespace is actually declared in scope
				uri, _ := el.lookupNS("")
				if uri == "" {
					if _, had := rendered[""]; !had {
						continue
					}
				}
			}
			util[p] = true
		}
	}
	var decls []NSDecl
	newRendered := rendered
	copied := false
	for p := range util {
		uri, ok := el.lookupNS(p)
		if !ok {
			continue
		}
		prev, had := rendered[p]
		if p == "" && uri == "" {
			if had && prev != "" {
				decls = append(decls, NSDecl{"", ""})
			} else {
				continue
			}
		} else if had && prev == uri {
			continue
		} else {
			decls = append(decls, NSDecl{p, uri})
		}
		if !copied {
			newRendered = make(map[string]string, len(rendered)+2)
			for k, v := range rendered {
				newRendered[k] = v
			}
			copied = true
		}
		newRendered[p] = uri
	}
	sort.Slice(decls, func(i, j int) bool { return decls[i].Prefix < decls[j].Prefix })
	attrs := append([]XAttr(nil), el.Attrs...)
	sort.SliceStable(attrs, func(i, j int) bool {
		if attrs[i].NS != attrs[j].NS {
			return attrs[i].NS < attrs[j].NS
		}
		return attrs[i].Local < attrs[j].Local
	})
	qn := el.Local
	if el.Prefix != "" {
		qn = el.Prefix + ":" + el.Local
	}
	sb.WriteByte('<')
	sb.WriteString(qn)
	for _, d := range decls {
		if d.Prefix == "" {
			sb.WriteString(` xmlns="`)
		} else {
			sb.WriteString(" xmlns:" + d.Prefix + `="`)
		}
		escAttr(sb, d.URI)
		sb.WriteByte('"')
	}
	for _, a := range attrs {
		sb.WriteByte(' ')
		if a.Prefix != "" {
			sb.WriteString(a.Prefix + ":")
		}
		sb.WriteString(a.Local)
		sb.WriteString(`="`)
		escAttr(sb, a.Value)
		sb.WriteByte('"')
	}
	sb.WriteByte('>')
	for _, c := range el.Children {
		excC14NRec(sb, c, exclude, incl, newRendered)
	}
	sb.WriteString("</" + qn + ">")
}

func hashFor(sigAlg string) (crypto.Hash, bool) {
	switch sigAlg {
	case AlgRSASHA1:
		return crypto.SHA1, true
	case AlgRSASHA256:
		return crypto.SHA256, true
	case AlgRSASHA512:
		return crypto.SHA512, true
	}
	return 0, false
}

func digestFor(alg string) (crypto.Hash, bool) {
	switch alg {
	case AlgSHA1:
		return crypto.SHA1, true
	case AlgSHA256:
		return crypto.SHA256, true
	case AlgSHA512:
		return crypto.SHA512, true
	}
	return 0, false
}

func sum(h crypto.Hash, b []byte) []byte {
	switch h {
	case crypto.SHA1:
		s := sha1.Sum(b)
		return s[:]
	case crypto.SHA256:
		s := sha256.Sum256(b)
		return s[:]
	case crypto.SHA512:
		s := sha512.Sum512(b)
		return s[:]
	}
	return nil
}

func stripWS(s string) string {
	return strings.Map(func(r rune) rune {
		if r == ' ' || r == '\t' || r == '\n' || r == '\r' {
			return -1
		}
		return r
	}, s)
}

// SigInfo describes an enveloped signature as found by the verifier.
type SigInfo struct {
	SigAlg, DigestAlg, C14NAlg string
	RefURI                     string
	KeyInfoCertB64             string
	DigestOK, SignatureOK      bool
}

// VerifyEnveloped checks that `signed` carries exactly one enveloped
// ds:Signature child whose single Reference points at signed's own ID, that
// the digest matches the exclusive canonical form of `signed` without that
// Signature, and that SignatureValue verifies over canonical SignedInfo under
// the given public key (the verifier's own trust anchor, not KeyInfo).
func VerifyEnveloped(signed *Node, pub *rsa.PublicKey) (*SigInfo, error) {
	sigs := signed.Childs(NSDS, "Signature")
	if len(sigs) != 1 {
		return nil, fmt.Errorf("expected exactly one enveloped Signature child, found %d", len(sigs))
	}
	sig := sigs[0]
	si := sig.Child(NSDS, "SignedInfo")
	if si == nil {
		return nil, fmt.Errorf("no SignedInfo")
	}
	info := &SigInfo{}
	info.C14NAlg = si.Child(NSDS, "CanonicalizationMethod").Attr("Algorithm")
	info.SigAlg = si.Child(NSDS, "SignatureMethod").Attr("Algorithm")
	if info.C14NAlg != AlgExcC14N && info.C14NAlg != AlgExcC14NC {
		return info, fmt.Errorf("unsupported canonicalization method %q", info.C14NAlg)
	}
	refs := si.Childs(NSDS, "Reference")
	if len(refs) != 1 {
		return info, fmt.Errorf("expected exactly one Reference, found %d", len(refs))
	}
	ref := refs[0]
	info.RefURI = ref.Attr("URI")
	id, hasID := signed.AttrOK("ID")
	if !hasID || id == "" {
		return info, fmt.Errorf("signed element has no ID")
	}
	if info.RefURI != "#"+id {
		return info, fmt.Errorf("Reference URI %q does not point at the signed element's ID %q", info.RefURI, id)
	}
	var inclusive []string
	sawEnveloped := false
	for _, tr := range ref.Child(NSDS, "Transforms").Childs(NSDS, "Transform") {
		switch alg := tr.Attr("Algorithm"); alg {
		case AlgEnveloped:
			sawEnveloped = true
		case AlgExcC14N, AlgExcC14NC:
			if in := tr.Child(NSEC, "InclusiveNamespaces"); in != nil {
				inclusive = strings.Fields(in.Attr("PrefixList"))
			}
		default:
			return info, fmt.Errorf("unsupported transform %q", alg)
		}
	}
	if !sawEnveloped {
		return info, fmt.Errorf("enveloped-signature transform missing")
	}
	info.DigestAlg = ref.Child(NSDS, "DigestMethod").Attr("Algorithm")
	dh, ok := digestFor(info.DigestAlg)
	if !ok {
		return info, fmt.Errorf("unsupported digest method %q", info.DigestAlg)
	}
	want, err := base64.StdEncoding.DecodeString(stripWS(ref.Child(NSDS, "DigestValue").TextContent()))
	if err != nil {
		return info, fmt.Errorf("DigestValue not base64: %v", err)
	}
	canon := ExcC14N(signed, sig, inclusive)
	got := sum(dh, canon)
	if string(got) != string(want) {
		return info, fmt.Errorf("digest mismatch (canonical form %d bytes: %s)", len(canon), abbreviate(string(canon), 400))
	}
	info.DigestOK = true
	sh, ok := hashFor(info.SigAlg)
	if !ok {
		return info, fmt.Errorf("unsupported signature method %q", info.SigAlg)
	}
	sv, err := base64.StdEncoding.DecodeString(stripWS(sig.Child(NSDS, "SignatureValue").TextContent()))
	if err != nil {
		return info, fmt.Errorf("SignatureValue not base64: %v", err)
	}
	var siIncl []string
	if in := si.Child(NSDS, "CanonicalizationMethod").Child(NSEC, "InclusiveNamespaces"); in != nil {
		siIncl = strings.Fields(in.Attr("PrefixList"))
	}
	siCanon := ExcC14N(si, nil, siIncl)
	if err := rsa.VerifyPKCS1v15(pub, sh, sum(sh, siCanon), sv); err != nil {
		return info, fmt.Errorf("SignatureValue does not verify over canonical SignedInfo: %v", err)
	}
	info.SignatureOK = true
	if x := sig.Path(NSDS, "KeyInfo", NSDS, "X509Data", NSDS, "X509Certificate"); x != nil {
		info.KeyInfoCertB64 = stripWS(x.TextContent())
	}
	return info, nil
}

func abbreviate(s string, n int) string {
	if len(s) <= n {
		return s
	}
	return s[:n/2] + "…" + s[len(s)-n/2:]
}

func certPub(c *x509.Certificate) *rsa.PublicKey {
	p, _ := c.PublicKey.(*rsa.PublicKey)
	return p
}

// SignOpts controls the layout of a signature produced by the conformant SP.
type SignOpts struct {
	SigAlg     string // AlgRSASHA1 | AlgRSASHA256
	DigestAlg  string // "" → matches SigAlg
	Prefix     string // "ds", "dsig", "" (default namespace)
	KeyInfo    bool
	WrapCert   bool // certificate text wrapped at 64 columns
	WrapValues bool // SignatureValue wrapped at 76 columns
	Indent     bool // whitespace between signature children
}

const sigMarker = "<!--VERIF-SIGNATURE-->"

// SignEnvelopedText takes an XML document text containing sigMarker where the
// ds:Signature element belongs (as a direct child of the root), and returns
// the signed document. The root must carry an ID attribute.
func SignEnvelopedText(doc string, kp *KeyPair, o SignOpts) (string, error) {
	unsigned := strings.Replace(doc, sigMarker, "", 1)
	root, err := ParseXML([]byte(unsigned))
	if err != nil {
		return "", fmt.Errorf("sign: parse: %w", err)
	}
	id := root.Attr("ID")
	if id == "" {
		return "", fmt.Errorf("sign: root has no ID")
	}
	sh, ok := hashFor(o.SigAlg)
	if !ok {
		return "", fmt.Errorf("sign: unsupported algorithm %s", o.SigAlg)
	}
	dAlg := o.DigestAlg
	if dAlg == "" {
		switch sh {
		case crypto.SHA1:
			dAlg = AlgSHA1
		default:
			dAlg = AlgSHA256
		}
	}
	dh, _ := digestFor(dAlg)
	digest := base64.StdEncoding.EncodeToString(sum(dh, ExcC14N(root, nil, nil)))
	p, decl := "", ` xmlns="`+NSDS+`"`
	if o.Prefix != "" {
		p, decl = o.Prefix+":", " xmlns:"+o.Prefix+`="`+NSDS+`"`
	}
	nl := ""
	if o.Indent {
		nl = "\n  "
	}
	var idEsc strings.Builder
	escAttr(&idEsc, id)
	si := "<" + p + "SignedInfo>" + nl +
		"<" + p + `CanonicalizationMethod Algorithm="` + AlgExcC14N + `"/>` + nl +
		"<" + p + `SignatureMethod Algorithm="` + o.SigAlg + `"/>` + nl +
		"<" + p + `Reference URI="#` + idEsc.String() + `">` +
		"<" + p + "Transforms>" +
		"<" + p + `Transform Algorithm="` + AlgEnveloped + `"/>` +
		"<" + p + `Transform Algorithm="` + AlgExcC14N + `"/>` +
		"</" + p + "Transforms>" +
		"<" + p + `DigestMethod Algorithm="` + dAlg + `"/>` +
		"<" + p + "DigestValue>" + digest + "</" + p + "DigestValue>" +
		"</" + p + "Reference>" + nl +
		"</" + p + "SignedInfo>"
	const svMarker = "@@VERIF-SIGVALUE@@"
	ki := ""
	if o.KeyInfo {
		c := kp.CertB64
		if o.WrapCert {
			c = wrapAt(c, 64)
		}
		ki = nl + "<" + p + "KeyInfo><" + p + "X509Data><" + p + "X509Certificate>" + c + "</" + p + "X509Certificate></" + p + "X509Data></" + p + "KeyInfo>"
	}
	sigXML := "<" + p + "Signature" + decl + ">" + nl + si + nl + "<" + p + "SignatureValue>" + svMarker + "</" + p + "SignatureValue>" + ki + nl + "</" + p + "Signature>"
	full := strings.Replace(doc, sigMarker, sigXML, 1)
	root2, err := ParseXML([]byte(full))
	if err != nil {
		return "", fmt.Errorf("sign: reparse: %w", err)
	}
	siNode := root2.Path(NSDS, "Signature", NSDS, "SignedInfo")
	if siNode == nil {
		return "", fmt.Errorf("sign: signature not a child of root")
	}
	sv, err := rsa.SignPKCS1v15(nil, kp.Key, sh, sum(sh, ExcC14N(siNode, nil, nil)))
	if err != nil {
		return "", err
	}
	svs := base64.StdEncoding.EncodeToString(sv)
	if o.WrapValues {
		svs = wrapAt(svs, 76)
	}
	return strings.Replace(full, svMarker, svs, 1), nil
}

func wrapAt(s string, n int) string {
	var sb strings.Builder
	for len(s) > n {
		sb.WriteString(s[:n])
		sb.WriteByte('\n')
		s = s[n:]
	}
	sb.WriteString(s)
	return sb.String()
}

func rsaSign(kp *KeyPair, h crypto.Hash, data []byte) ([]byte, error) {
	return rsa.SignPKCS1v15(nil, kp.Key, h, sum(h, data))
}
