package sim

// Oracles: evaluated over the recorded history of a finished run. Each is an
// implication taken from the property statement; none reads /repo's structs.

import (
	"bytes"
	"encoding/base64"
	"fmt"
	"sort"
	"strings"
)

func userMarker(i int) string    { return fmt.Sprintf("zqu%dkx", i) }
func sessionMarker(i int) string { return fmt.Sprintf("zqs%dkx", i) }
func spMarker(i int) string      { return fmt.Sprintf("zqp%dkx", i) }
func hostMarker(i int) string    { return fmt.Sprintf("zqh%dkx", i) }

func (r *Result) violate(rule, key, expected, observed string, task int) {
	for _, v := range r.Violations {
		if v.Key == key {
			return // one report per class and run
		}
	}
	r.Violations = append(r.Violations, ViolationRec{Rule: rule, Key: key, Expected: expected, Observed: abbreviate(observed, 1200), Task: task, Digest: r.Digest})
}

// evaluate runs the oracles armed for the plan's property.
func evaluate(r *Result) {
	w := r.World
	if w == nil {
		return
	}
	r.Violations = append(r.Violations, w.Violations...)
	for i := range r.Violations {
		r.Violations[i].Digest = r.Digest
	}
	prop := r.Plan.Property
	if prop != "C09" {
		// registration panics are C09's business only
		var keep []ViolationRec
		for _, v := range r.Violations {
			if !strings.HasPrefix(v.Key, "C09:") {
				keep = append(keep, v)
			}
		}
		r.Violations = keep
	}
	if !w.constructed {
		r.SchedSig, r.OutcomeSig = "unconstructed", w.ConstructErr
		return
	}
	switch prop {
	case "C01":
		oracleC01(r)
	case "C02":
		oracleC02(r)
	case "C03":
		oracleC03(r)
	case "C04":
		oracleC04(r)
	case "C05":
		oracleC05(r)
	case "C06":
		oracleC06(r)
	case "C07":
		oracleC07(r)
	case "C08":
		oracleC08(r)
	case "C09":
		oracleC09(r)
	case "C10":
		oracleC10(r)
	case "C11":
		oracleC11(r)
	case "C12":
		oracleC12(r)
	case "C13":
		oracleC13(r)
	case "C15":
		oracleC15(r)
	}
	if r.Plan.Recovery && prop != "C07" {
		oracleRecovery(r)
	}
	r.SchedSig, r.OutcomeSig = signatures(r)
}

// signatures: the schedule signature (order of seam events per task kind) and the outcome signature.
func signatures(r *Result) (string, string) {
	var sb, ob strings.Builder
	for _, e := range r.World.hist.Events {
		switch e.Kind {
		case "invoke":
			fmt.Fprintf(&sb, "I%d;", e.Task)
		case "resume":
			op, _, _ := strings.Cut(e.Detail, " ")
			f := ""
			if i := strings.Index(e.Detail, "fault="); i >= 0 {
				f = e.Detail[i+6:]
			}
			fmt.Fprintf(&sb, "R%d%s%s;", e.Task, abbrevOp(op), f)
		case "mutate":
			w0, _, _ := strings.Cut(e.Detail, " ")
			fmt.Fprintf(&sb, "M%s;", w0)
		case "advance":
			sb.WriteString("A;")
		case "restart":
			sb.WriteString("X;")
		case "overlap":
			sb.WriteString("O" + e.Detail + ";")
		}
	}
	for _, t := range r.Tasks {
		rp := t.Reply
		code := ""
		if rp != nil && rp.Msg != nil {
			code = rp.Msg.StatusCode
			if i := strings.LastIndex(code, ":"); i >= 0 {
				code = code[i+1:]
			}
		}
		kind, status := "", 0
		if rp != nil {
			kind, status = rp.Kind, rp.Status
		}
		p := ""
		if t.Panic != "" {
			p = "!" + t.PanicFunc
		}
		fmt.Fprintf(&ob, "%s:%d:%s:%s%s;", t.Msg.Kind, status, kind, code, p)
	}
	return sb.String(), ob.String()
}

func abbrevOp(op string) string {
	var sb strings.Builder
	for _, c := range op {
		if c >= 'A' && c <= 'Z' {
			sb.WriteRune(c)
		}
	}
	if sb.Len() == 0 {
		return op
	}
	return sb.String()
}

// storageFaults lists failure-type storage faults injected into the task (not stalls, not transport faults).
func storageFaults(t *Task) []string {
	var out []string
	for _, f := range t.FaultFired {
		if strings.Contains(f, ":") {
			out = append(out, f)
		}
	}
	return out
}

func writerFaultFired(t *Task) bool {
	for _, f := range t.FaultFired {
		if f == "writer_error_at" {
			return true
		}
	}
	return false
}

// benignBody: delivery in pieces is ordinary transport behaviour, not a fault.
func benignBody(mode string) bool { return mode == "short" || mode == "split" }

func bodyFaultFired(t *Task) bool {
	for _, f := range t.FaultFired {
		if strings.HasPrefix(f, "body_") {
			return true
		}
	}
	return false
}

func firstCall(t *Task, op string) *CallRec {
	for i := range t.Calls {
		if t.Calls[i].Op == op {
			return &t.Calls[i]
		}
	}
	return nil
}

func callsOf(t *Task, op string) []*CallRec {
	var out []*CallRec
	for i := range t.Calls {
		if t.Calls[i].Op == op {
			out = append(out, &t.Calls[i])
		}
	}
	return out
}

// haystacks returns every byte string of a reply in which leaked data could hide:
// status-independent headers, the raw body, and the decoded SAML payload.
func haystacks(t *Task) [][]byte {
	r := t.Reply
	var hs [][]byte
	var hb bytes.Buffer
	keys := make([]string, 0, len(r.Header))
	for k := range r.Header {
		keys = append(keys, k)
	}
	sort.Strings(keys)
	for _, k := range keys {
		for _, v := range r.Header[k] {
			hb.WriteString(k + ": " + v + "\n")
			if dec, ok := pctDecode(v); ok && dec != v {
				hb.WriteString(dec + "\n")
			}
		}
	}
	hs = append(hs, hb.Bytes(), r.Body)
	if len(r.SAMLXML) > 0 {
		hs = append(hs, r.SAMLXML)
	}
	if r.Form != nil {
		for _, f := range r.Form.Fields {
			hs = append(hs, []byte(f.RawVal))
			if b, err := base64.StdEncoding.DecodeString(f.RawVal); err == nil {
				hs = append(hs, b)
			}
		}
	}
	return hs
}

// leaks reports what a failure reply must not contain (C01 b / C10): subject identifier, attribute
// value, signature, or any per-user marker. The empty <Assertion> shell is tolerated.
func leaks(w *World, t *Task) []string {
	var out []string
	r := t.Reply
	if r == nil {
		return nil
	}
	if r.Doc != nil {
		for _, name := range []string{"Subject", "NameID", "AttributeStatement", "AttributeValue", "Signature", "SignatureValue"} {
			if len(r.Doc.FindLocal(name)) > 0 {
				out = append(out, "element:"+name)
			}
		}
	}
	if r.RawQuery != "" {
		if _, n := firstRaw(splitRawQuery(r.RawQuery), "Signature"); n > 0 {
			out = append(out, "query:Signature")
		}
	}
	hs := haystacks(t)
	for i := range w.cfg.Users {
		m := []byte(userMarker(i))
		for _, h := range hs {
			if bytes.Contains(h, m) {
				out = append(out, "marker:user")
				break
			}
		}
	}
	sort.Strings(out)
	return dedup(out)
}

func dedup(in []string) []string {
	var out []string
	for i, s := range in {
		if i == 0 || s != in[i-1] {
			out = append(out, s)
		}
	}
	return out
}

func faultClass(fs []string) string {
	if len(fs) == 0 {
		return "nofault"
	}
	return fs[0]
}

// ---------------------------------------------------------------------------
// C01 — no Success assertion without completed authentication

func oracleC01(r *Result) {
	w := r.World
	for _, t := range r.Tasks {
		if t.Msg.Kind != "callback" || t.Abandoned || t.Reply == nil {
			continue
		}
		if t.Panic != "" {
			continue // "aborted": C09's business
		}
		state := "absent"
		var snap *Session
		if c := firstCall(t, "AuthRequestByID"); c != nil && c.Snap != nil {
			snap = c.Snap
			if snap.DoneFlag {
				state = "done"
			} else {
				state = "pending"
			}
		}
		if len(callsOf(t, "AuthRequestByID")) == 0 {
			state = "nolookup"
		}
		liveUserOK := true
		if c := firstCall(t, "AuthRequestByID"); w.cfg.LiveRecords && c != nil && snap != nil && snap.Idx < len(w.sessions) {
			// live records: "reports that its user has completed authentication" can become true (or false) while the request is
			// being served. Success is legitimate iff at some instant between the lookup and the reply the stored request was done —
			// and done for the very user the assertion describes.
			described := ""
			if uc := firstCall(t, "SetUserinfoWithUserID"); uc != nil && len(uc.Args) > 1 {
				described = uc.Args[1]
			}
			everDone, doneAsDescribed := false, false
			states := w.sessions[snap.Idx].States
			for i, st := range states {
				endsBeforeLookup := i+1 < len(states) && states[i+1].Seq <= c.Seq
				if endsBeforeLookup || st.Seq > t.SeqReturn {
					continue
				}
				if st.Done {
					everDone = true
					if st.User == described {
						doneAsDescribed = true
					}
				}
			}
			if everDone {
				state = "done"
			} else {
				state = "pending"
			}
			liveUserOK = doneAsDescribed || described == ""
			w.probe("live_record_interval_evaluated")
		}
		sf := storageFaults(t)
		if c := firstCall(t, "SetUserinfoWithUserID"); c != nil && state != "done" {
			w.probe("userinfo_fetched_without_done")
		}
		if writerFaultFired(t) {
			continue // the client is gone; nothing it could have received is judged
		}
		rep := t.Reply
		if rep.IsSuccess() {
			w.probe("callback_success")
			if state != "done" {
				r.violate("C01.a success-without-done", "C01:callback:success:"+state,
					"status Success only when the stored request exists and reports Done",
					fmt.Sprintf("callback id=%q (state %s) answered Success: %s", t.Sent.CallbackID, state, replySummary(t)), t.ID)
			} else if c := firstCall(t, "AuthRequestByID"); c != nil && len(c.Args) > 0 && len(t.Sent.CallbackIDs) > 0 && !contains(t.Sent.CallbackIDs, c.Args[0]) {
				r.violate("C01.a success-for-another-request", "C01:callback:success:looked-up-id-differs-from-named-id",
					"status Success only when the stored request named by the caller exists and reports Done",
					fmt.Sprintf("caller named %q, the handler looked up %q: %s", t.Sent.CallbackIDs, c.Args[0], replySummary(t)), t.ID)
			} else if !validSigAlg(w.cfg.IDP.SigAlg) {
				r.violate("C01.a success-despite-failure", "C01:callback:success-although-signing-is-impossible:configured-algorithm-unusable",
					"a signing failure yields a non-Success reply (the configured signature algorithm cannot produce a signature at all)",
					fmt.Sprintf("SignatureAlgorithm %q, reply still Success: %s", w.cfg.IDP.SigAlg, replySummary(t)), t.ID)
			} else if !liveUserOK {
				r.violate("C01.a success-for-a-user-who-never-completed", "C01:callback:success:described-user-never-completed-authentication",
					"status Success and an assertion about a user only when the stored request reports that this user has completed authentication",
					fmt.Sprintf("the stored request was never in state done for the user the assertion describes (states %v): %s", w.sessions[snap.Idx].States, replySummary(t)), t.ID)
			} else if c := firstCall(t, "AuthRequestByID"); c != nil && c.CtxIssuer != t.Sent.IdPIssuer && !isShadowless(t) {
				r.violate("C01.a success-for-another-tenants-request", "C01:callback:success:request-looked-up-under-another-issuer",
					"status Success only when the stored request named by the caller exists and reports Done (a caller on one host names that host's request)",
					fmt.Sprintf("request arrived for issuer %q, the stored request was looked up under issuer %q: %s", t.Sent.IdPIssuer, c.CtxIssuer, replySummary(t)), t.ID)
			} else if len(sf) > 0 {
				r.violate("C01.a success-despite-failure", "C01:callback:success-after-fault:"+faultOpKind(sf[0]),
					"a user-info lookup or signing failure yields a non-Success reply",
					fmt.Sprintf("fault %v injected, reply still Success", sf), t.ID)
			}
			continue
		}
		if lk := leaks(w, t); len(lk) > 0 {
			cls := state
			if len(sf) > 0 {
				cls = "fault:" + faultOpKind(sf[0])
			}
			r.violate("C01.b failure-reply-leaks", "C01:callback:leak:"+strings.Join(lk, "+")+":"+cls,
				"a non-Success reply contains no subject identifier, attribute value or signature",
				fmt.Sprintf("state=%s faults=%v leaks=%v reply=%s", state, sf, lk, replySummary(t)), t.ID)
		}
		if state == "done" && len(sf) == 0 && !bodyFaultFired(t) && !t.AdvDuring {
			w.probe("done_session_not_success")
		}
	}
}

func contains(xs []string, x string) bool {
	for _, y := range xs {
		if y == x {
			return true
		}
	}
	return false
}

// faultOpKind turns "Op:kind" into a stable class string.
func faultOpKind(f string) string { return f }

// isShadowless: placeholder for requests whose issuer the model cannot name (none at present).
func isShadowless(t *Task) bool { return t.Sent == nil || t.Sent.IdPIssuer == "" }
