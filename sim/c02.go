package sim

// C02 — SAML responses are only ever delivered to registered endpoints.

import (
	"fmt"
	"strings"
)

func attackerURL(u string) bool {
	return strings.Contains(u, "evil.example") || strings.Contains(u, "rogue.example") || strings.HasPrefix(strings.ToLower(strings.TrimSpace(u)), "javascript:")
}

func acsEntry(cfg *SPCfg, url, binding string) bool {
	for _, a := range cfg.ACS {
		if a.URL == url && a.Binding == binding {
			return true
		}
	}
	return false
}

func acsURLRegistered(cfg *SPCfg, target string) bool {
	for _, a := range cfg.ACS {
		if urlEquivalent(target, a.URL) {
			return true
		}
	}
	return false
}

// hasTarget: the reply asks the browser to deliver a SAML message somewhere.
func hasTarget(rep *Reply) bool { return rep.Kind == RKForm || rep.Kind == RKRedirectSAML }

func oracleC02(r *Result) {
	w := r.World
	for _, t := range r.Tasks {
		if t.Abandoned || t.Panic != "" || t.Reply == nil || writerFaultFired(t) {
			continue
		}
		rep := t.Reply
		bad := func(rule, expected, observed string) {
			r.violate("C02 "+rule, "C02:"+t.Msg.Kind+":"+rule, expected, observed+"; "+replySummary(t), t.ID)
		}
		if hasTarget(rep) && attackerURL(rep.Target) {
			bad("delivered-to-attacker", "no message is ever delivered to a URL taken from the request", rep.Target)
			continue
		}
		switch t.Msg.Kind {
		case "sso":
			rec := firstCall(t, "GetEntityByID")
			for _, pc := range persisted(t) {
				w.probe("persisted_pair_checked")
				if rec == nil || rec.SPCfg == nil || !acsEntry(rec.SPCfg, pc.Snap.ACS, pc.Snap.Binding) {
					bad("persisted-pair-not-a-registered-entry", "the persisted (URL, binding) is one AssertionConsumerService entry registered for the issuer's service provider",
						fmt.Sprintf("persisted (%q, %q)", pc.Snap.ACS, pc.Snap.Binding))
				}
			}
			if hasTarget(rep) {
				w.probe("sso_error_reply_target_checked")
				if rec == nil || rec.SPCfg == nil || !acsURLRegistered(rec.SPCfg, rep.Target) {
					bad("error-reply-to-unregistered-url", "an SSO error reply targets a registered consumer URL of the issuer's service provider, or nothing", rep.Target)
				} else if rep.Msg != nil && rep.Msg.Destination != "" && !acsURLRegistered(rec.SPCfg, rep.Msg.Destination) {
					bad("error-reply-destination", "Destination names a registered consumer URL", rep.Msg.Destination)
				}
			}
		case "callback":
			ac := firstCall(t, "AuthRequestByID")
			if ac == nil || ac.Snap == nil {
				if hasTarget(rep) {
					bad("reply-for-unknown-request-has-target", "without a stored request there is no URL to deliver to", rep.Target)
				}
				continue
			}
			S := ac.Snap
			if rep.Kind == RKRedirect && S.ACS != "" && len(storageFaults(t)) == 0 {
				// a redirect that carries no SAML message the consumer could find: whatever it targets, it is not the stored pair
				bad("redirect-without-message", fmt.Sprintf("the redirect delivers the response to the stored consumer URL %q", S.ACS), rep.Target)
				continue
			}
			if rep.Msg == nil {
				continue
			}
			w.probe("callback_target_checked")
			wantKind := ""
			switch {
			case S.ACS == "":
				wantKind = RKXML
			case S.Binding == BindPost:
				wantKind = RKForm
			case S.Binding == BindRedirect:
				wantKind = RKRedirectSAML
			}
			if wantKind == "" {
				if hasTarget(rep) {
					bad("stored-pair-not-used", fmt.Sprintf("the stored pair (%q, %q) is used", S.ACS, S.Binding), rep.Kind+" to "+rep.Target)
				}
				continue
			}
			if rep.Kind != wantKind {
				bad("stored-binding-not-used", fmt.Sprintf("delivery by the stored binding %q to %q", S.Binding, S.ACS), rep.Kind+" to "+rep.Target)
				continue
			}
			if hasTarget(rep) && !urlEquivalent(rep.Target, S.ACS) {
				cls := ""
				if rep.Kind == RKRedirectSAML && strings.Contains(S.ACS, "?") {
					cls = ":acs-with-query"
				}
				bad("stored-url-not-used"+cls, fmt.Sprintf("the form or redirect targets exactly the stored consumer URL %q", S.ACS), rep.Target)
			}
			if rep.Msg.Destination != S.ACS {
				bad("destination", fmt.Sprintf("Destination = %q", S.ACS), rep.Msg.Destination)
			}
			if rep.Msg.Success && len(rep.Msg.Assertions) == 1 && rep.Msg.Assertions[0].SCDRecipient != S.ACS {
				bad("recipient", fmt.Sprintf("Recipient = %q", S.ACS), rep.Msg.Assertions[0].SCDRecipient)
			}
			// re-registration since the request was stored must not matter
			if sp := w.spNode(S.SP); sp != nil && S.SP >= 0 && sp.Version > 0 {
				w.probe("callback_after_reregistration")
			}
		case "slo":
			if !hasTarget(rep) {
				continue
			}
			w.probe("logout_target_checked")
			rec := firstCall(t, "GetEntityByID")
			if rec == nil || rec.SPCfg == nil || len(rec.SPCfg.SLO) == 0 || !urlEquivalent(rep.Target, rec.SPCfg.SLO[0].URL) {
				bad("logout-response-to-unregistered-url", "a logout response is posted only to the first registered SingleLogoutService location", rep.Target)
			}
		default:
			if hasTarget(rep) {
				bad("unexpected-delivery", "only SSO, callback and logout replies hand a message to the browser", rep.Target)
			}
		}
	}
}

func (g G) planC02() *Plan {
	o := &mixOpts{family: "delivery-targets",
		world: worldOpts{nilUnknownPct: 12, maxSPs: 3, maxUsers: 2, maxReplicas: 2, hardPct: 10, hardURLPct: 60, acsVariety: true, sloVariety: true, parkVariety: true, issuerVariety: true, signReqVariety: true, noCertPct: 10},
		wSSO:  35, wCallback: 18, wSLO: 14, wMeta: 3, wAttrQ: 3, wCert: 1, wResume: 22, wFinish: 10, wComplete: 8, wRereg: 7, wDelSP: 1, wAdvance: 2, wRestart: 1,
		devPct: 15, tamperPct: 40, timePct: 5, rogueSPPct: 8, hostVariety: true, faultPcts: []int{0, 0, 10},
		minSteps: 4, maxSteps: 36, maxPre: 3, hardPre: true, autoFinishPct: 45, callbackAfter: 60, raceBias: true}
	p := g.planMix("C02", o)
	// requests that name foreign consumer endpoints, bindings and indices themselves
	for i := range p.Steps {
		if m := p.Steps[i].Msg; m != nil && m.Kind == "sso" && g.chance(fmt.Sprintf("foreign%d", i), 35) {
			switch g.intn(fmt.Sprintf("foreignk%d", i), 8) {
			case 6, 7:
				// a registered consumer URL in another spelling (letter case, Unicode case folding, surrounding white space, escapes)
				if c := &p.World.SPs[mod(m.SP, len(p.World.SPs))]; m.SP >= 0 && len(c.ACS) > 0 {
					a := c.ACS[g.intn(fmt.Sprintf("foreignx%d", i), len(c.ACS))]
					switch g.intn(fmt.Sprintf("foreignsp%d", i), 7) {
					case 0:
						m.ACSURL = strings.ToUpper(a.URL)
					case 1:
						m.ACSURL = strings.Replace(a.URL, "https://sp", "HTTPS://SP", 1)
					case 2:
						m.ACSURL = " " + a.URL
					case 3:
						m.ACSURL = a.URL + " "
					case 4:
						m.ACSURL = strings.Replace(strings.Replace(a.URL, "s", "\u017f", 1), "k", "\u212a", 1)
					case 5:
						m.ACSURL = strings.Replace(a.URL, "/acs", "/%61cs", 1)
					case 6:
						m.ACSURL = "\t" + a.URL + "\n"
					}
					m.ProtoBind = g.pick(fmt.Sprintf("foreignpb%d", i), "", a.Binding)
				}
			case 4, 5:
				// a consumer URL that merely extends a registered one
				if c := &p.World.SPs[mod(m.SP, len(p.World.SPs))]; m.SP >= 0 && len(c.ACS) > 0 {
					a := c.ACS[g.intn(fmt.Sprintf("foreignx%d", i), len(c.ACS))]
					m.ACSURL = a.URL + g.pick(fmt.Sprintf("foreigns%d", i), ".evil.example/collect", "/../../redirect?to=https://evil.example/", "x", "?next=https://evil.example/", "/")
					m.ProtoBind = g.pick(fmt.Sprintf("foreignpb%d", i), "", a.Binding)
				}
			case 0:
				m.ACSURL = g.pick(fmt.Sprintf("foreignu%d", i), "https://evil.example/acs", "https://rogue.example/acs", "javascript:alert(1)")
			case 1:
				m.ACSIndex = g.pick(fmt.Sprintf("foreigni%d", i), "9", "65535", "-1")
			case 2:
				m.ProtoBind = g.pick(fmt.Sprintf("foreignb%d", i), BindArtifact, BindPAOS, "urn:evil:binding", BindPost, BindRedirect)
			case 3:
				m.Extra = []string{g.pick(fmt.Sprintf("foreigne%d", i), "acs=https%3A%2F%2Fevil.example%2Facs", "AssertionConsumerServiceURL=https%3A%2F%2Fevil.example%2Facs", "Destination=https%3A%2F%2Fevil.example%2F")}
			}
		}
	}
	return p
}
