package sim

import (
	"crypto/rsa"
	"crypto/x509"
	"embed"
	"encoding/base64"
	"encoding/pem"
	"fmt"
)

//go:embed fixtures/*.pem
var fixtureFS embed.FS

// KeyPair is one pre-generated RSA key with a self-signed certificate. Keys
// are fixtures (not generated per run) because rsa.GenerateKey is
// deliberately non-deterministic.
type KeyPair struct {
	Idx     int
	Key     *rsa.PrivateKey
	CertDER []byte
	Cert    *x509.Certificate
	CertB64 string
}

// Fixture roles.
const (
	KeyIDPResp0 = 0 // response signing key versions 0..2
	KeyIDPMeta0 = 3 // metadata signing key versions 0..1
	KeySP0      = 5 // SP keys 5..8
	KeySPRot    = 9 // key an SP rotates to
	KeyRogue    = 10
	KeyShort    = 11 // certificate valid only during 2001
	KeyEnc      = 12 // an SP's encryption key pair (second KeyDescriptor, use="encryption")
	NumKeys     = 13
)

var Keys []*KeyPair

func init() {
	for i := 0; i < NumKeys; i++ {
		kb, err := fixtureFS.ReadFile(fmt.Sprintf("fixtures/k%02d.key.pem", i))
		if err != nil {
			panic(err)
		}
		cb, err := fixtureFS.ReadFile(fmt.Sprintf("fixtures/k%02d.crt.pem", i))
		if err != nil {
			panic(err)
		}
		kblk, _ := pem.Decode(kb)
		cblk, _ := pem.Decode(cb)
		key, err := x509.ParsePKCS1PrivateKey(kblk.Bytes)
		if err != nil {
			panic(err)
		}
		cert, err := x509.ParseCertificate(cblk.Bytes)
		if err != nil {
			panic(err)
		}
		Keys = append(Keys, &KeyPair{Idx: i, Key: key, CertDER: cblk.Bytes, Cert: cert,
			CertB64: base64.StdEncoding.EncodeToString(cblk.Bytes)})
	}
}
