// vcheck orchestrates one property check: builds the simulator against /repo's working tree, fans
// seeded workers out over the cores, merges what they covered, replays any violation in a fresh
// process, writes the evidence file and prints the verdict lines.
//
//	exit 0  property held on everything explored (known findings are printed, not alarms)
//	exit 1  VIOLATION property=<id> replay=<path>
//	exit 2  build / harness / watchdog / replay-mismatch trouble (never a violation)
package main

import (
	"bytes"
	"encoding/json"
	"fmt"
	"os"
	"os/exec"
	"path/filepath"
	"runtime"
	"sort"
	"strconv"
	"strings"
	"sync"
	"time"
)

var verifDir = func() string {
	if d := os.Getenv("VERIF_ROOT"); d != "" {
		return d
	}
	return "/verif"
}()

type propCfg struct {
	Level     string
	Rule      string
	QuickRuns int // per worker
	QuickBud  time.Duration
	ThorRuns  int
	ThorBud   time.Duration
	Required  []string // probes / fault kinds that must be non-zero in the thorough tier
	Race      bool     // additionally run the race-detector stage
	Assume    []string
	RealStub  string
}

var commonAssume = []string{
	"go1.26.8 testing/synctest provides the only clock the code under test reads; the guard-off baseline runs under go1.23.7",
	"Storage, login UI, service providers, browser, network and attacker are simulator stubs with the semantics described in DESIGN.md §2",
	"oracles (XML reader, exc-c14n / XML-DSig verifier, redirect-signature verifier, HTML form reader, SP message generator) are independent re-implementations, cross-checked by the harness self-tests",
	"a clean batch is evidence, not proof: schedules, faults and inputs are sampled from one seed",
}

const compReal = "pkg/provider (handlers, router, metadata, response building), pkg/provider/serviceprovider, pkg/provider/signature, pkg/provider/xml, pkg/provider/checker, gorilla/mux, gorilla/handlers, html/template, encoding/xml, goxmldsig, amdonov/xmlsig, google/uuid — all as linked by /repo"
const compStub = "Storage (in-memory, parks at every call), login UI, service providers, browser, network attacker, clock (synctest bubble), ResponseWriter, request Body"

const ruleGeneric = "cases are whole simulated executions drawn by pgregory.net/rapid from one seed (world configuration + step list + faults); a case is non-trivial when at least one fault fired or at least two tasks were interleaved (≥2 task switches between resumes); distinct = distinct (schedule signature × outcome signature) among the non-trivial ones, counted by hash"

var props = map[string]propCfg{
	"C01": {Level: "exploration", QuickRuns: 4000, QuickBud: 22 * time.Second, ThorRuns: 200000, ThorBud: 10 * time.Minute,
		Required: []string{"callback_raced_completion", "callback_success", "storage_err", "request_deleted", "restart", "same_id_exists_in_another_tenant", "storage_error_with_typed_nil_record"}},
	"C09": {Level: "exploration", QuickRuns: 4000, QuickBud: 22 * time.Second, ThorRuns: 200000, ThorBud: 10 * time.Minute,
		Rule:     "stage 1 sweeps completely every single structural edit (delete / duplicate / empty each element, delete / empty / duplicate each attribute) of 7 base messages (AuthnRequest redirect / POST signed / redirect signed, LogoutRequest POST / redirect, AttributeQuery unsigned / signed incl. the SOAP envelope) and of the stored metadata of 2 SPs (thorough tier: also every ordered pair of single edits of every base message); stage 2 draws random worlds with corrupted SP metadata, deviating / tampered / raw / torn requests (up to 3 edits per message) under storage faults. Non-trivial: at least one fault or edit fired or two tasks interleaved; distinct by (schedule × outcome) hash",
		Required: []string{"handler_ran", "sp_metadata_corrupt", "tamper_dropElem", "tamper_dropAttr", "tamper_swap_sigalg", "body_eof_at", "storage_err"}},
	"C10": {Level: "fault_enumeration", QuickRuns: 4000, QuickBud: 25 * time.Second, ThorRuns: 200000, ThorBud: 10 * time.Minute,
		Rule:     "stage 1 enumerates completely: 4 provider configurations × 14 workloads × {no bystander, callback bystander, metadata bystander, warm-up by an earlier callback, warm-up by an earlier metadata request, callback / metadata bystander run up to its own call of the operation the fault hits, callback / metadata bystander run through that call} × every storage call of the workload's trace × every fault kind the property names for that operation (single faults: the returned error in six values), singly and in all pairs (second fault anywhere in the trace as it unfolds after the first); stage 2 draws random fault schedules over random worlds with pgregory.net/rapid. A case is non-trivial when at least one fault fired or at least two tasks were interleaved; distinct = distinct (schedule signature × outcome signature), counted by hash",
		Required: []string{"storage_err", "storage_nil_record", "storage_key_without_cert", "storage_cert_without_key", "storage_empty_cert", "alg_unusable", "bystander_during_fault", "recovery_request"}},
	"C02": {Level: "exploration", QuickRuns: 4000, QuickBud: 22 * time.Second, ThorRuns: 200000, ThorBud: 10 * time.Minute,
		Required: []string{"persisted_pair_checked", "sso_error_reply_target_checked", "callback_target_checked", "callback_after_reregistration", "logout_target_checked", "sp_reregistered", "tamper_field", "request_names_a_respelled_registered_consumer_url"}},
	"C03": {Level: "exploration", QuickRuns: 4000, QuickBud: 22 * time.Second, ThorRuns: 200000, ThorBud: 10 * time.Minute,
		Required: []string{"success_assertion_checked", "issueinstant_checked_at_exact_instant", "advance_while_parked", "key_rotated"}},
	"C04": {Level: "exploration", QuickRuns: 4000, QuickBud: 22 * time.Second, ThorRuns: 200000, ThorBud: 10 * time.Minute,
		Required: []string{"enveloped_signature_checked", "redirect_signature_checked", "metadata_signature_checked", "key_rotated", "torn_key_record_handed_out"}},
	"C05": {Level: "exploration", QuickRuns: 4000, QuickBud: 22 * time.Second, ThorRuns: 200000, ThorBud: 10 * time.Minute,
		Required: []string{"sso_accepted", "accepted_while_signing_required", "accepted_with_valid_signature", "signed_request_rejected", "tamper_wrap", "tamper_sig_flip", "tamper_strip_sig", "sp_reregistered"}},
	"C06": {Level: "exploration", QuickRuns: 4000, QuickBud: 22 * time.Second, ThorRuns: 200000, ThorBud: 10 * time.Minute,
		Required: []string{"sso_accepted", "nonconformant_rejected", "now_equals_notonorafter", "now_equals_notbefore", "sp_skew", "delay", "tamper_b64_garbage", "tamper_deflate_cut"}},
	"C07": {Level: "exploration", QuickRuns: 4000, QuickBud: 22 * time.Second, ThorRuns: 200000, ThorBud: 10 * time.Minute,
		Required: []string{"conformant_sso_accepted", "conformant_slo_accepted", "conformant_attrq_accepted", "accepted_with_cdata_text", "accepted_with_character_references", "accepted_with_comment_inside_text", "accepted_post_base64_with_line_breaks", "soap_query_namespaces_declared_on_an_ancestor", "request_content_type_variant"}},
	"C11": {Level: "exploration", QuickRuns: 4000, QuickBud: 22 * time.Second, ThorRuns: 200000, ThorBud: 10 * time.Minute,
		Required: []string{"metadata_checked", "certificate_endpoint_checked", "issuer_compared_with_entityid", "probe_sso", "probe_slo", "probe_attr", "want_signed_compared", "want_signed_advertised", "key_rotated"}},
	"C12": {Level: "exploration", QuickRuns: 4000, QuickBud: 22 * time.Second, ThorRuns: 200000, ThorBud: 10 * time.Minute,
		Required: []string{"attrq_answered", "attrq_refused", "attrq_filtered", "attrq_answered_with_advertised_destination", "key_rotated", "storage_err"}},
	"C13": {Level: "exploration", QuickRuns: 4000, QuickBud: 22 * time.Second, ThorRuns: 200000, ThorBud: 10 * time.Minute,
		Required: []string{"logout_success", "logout_failure", "now_equals_notonorafter", "now_equals_issueinstant", "sp_reregistered", "sp_deleted", "sp_skew"}},
	"C15": {Level: "exploration", QuickRuns: 4000, QuickBud: 25 * time.Second, ThorRuns: 200000, ThorBud: 12 * time.Minute, Race: true,
		Required: []string{"request_overlapped_another", "message_id_checked", "overlap_window", "shadow_compared", "shadow_compared_callback", "shadow_compared_attrq", "shadow_compared_metadata", "reply_attributes_compared_with_stored_record", "storage_passed_its_own_value_slice"}},
	"C08": {Level: "exploration", QuickRuns: 4000, QuickBud: 22 * time.Second, ThorRuns: 200000, ThorBud: 10 * time.Minute,
		Required: []string{"sso_persisted", "sso_not_persisted", "storage_err", "body_error_at"}},
}

type violation struct {
	Rule, Key, Expected, Observed string
	Digest                        string `json:"history_digest"`
	Task                          int
	Replay                        string `json:"replay"`
	PrefixReplay                  string `json:"prefix_replay"`
	StepsBefore                   int    `json:"steps_before_shrinking"`
	StepsAfter                    int    `json:"steps_after_shrinking"`
}

type workerOut struct {
	Prop       string            `json:"prop"`
	Runs       int               `json:"runs"`
	Unbuilt    int               `json:"unconstructed"`
	Hashes     []uint64          `json:"hashes"`
	SchedHash  []uint64          `json:"sched_hash"`
	StateHash  []uint64          `json:"state_hash"`
	Fired      map[string]int    `json:"fired"`
	Probes     map[string]int    `json:"probes"`
	SimS       float64           `json:"sim_s"`
	Steps      int               `json:"steps"`
	NoOps      int               `json:"noops"`
	Tasks      int               `json:"tasks"`
	Outcomes   map[string]int    `json:"outcomes"`
	RunsFlow   int               `json:"runs_with_full_flow"`
	Known      map[string]int    `json:"known"`
	KnownWhat  map[string]string `json:"known_what"`
	Violation  *violation        `json:"violation"`
	Samples    []json.RawMessage `json:"samples"`
	HarnessErr string            `json:"harness_err"`
	WallS      float64           `json:"wall_s"`
	Exhaustive bool              `json:"exhaustive"`
	Enumerated int               `json:"enumerated"`
	Pairs      int               `json:"pairs"`
}

// builtBins: the simulator binaries this invocation built. They carry the process id in their name so that two checks running
// at the same time (a background sweep and a foreground check, say) never execute each other's build — which, with VERIF_REPO
// pointing at different trees, would silently judge the wrong code.
var builtBins []string

func cleanupBins() {
	for _, b := range builtBins {
		os.Remove(b)
	}
}

func exit(code int) {
	cleanupBins()
	os.Exit(code)
}

func die(code int, f string, a ...any) {
	fmt.Fprintf(os.Stderr, "vcheck: "+f+"\n", a...)
	exit(code)
}

func goEnv() []string {
	env := os.Environ()
	return append(env, "GOFLAGS=-mod=mod", "GOPROXY=off", "GOSUMDB=off", "GOTOOLCHAIN=local", "CGO_ENABLED=1")
}

func build(race bool) string {
	out := filepath.Join(verifDir, ".build", fmt.Sprintf("sim.%d.test", os.Getpid()))
	args := []string{"test", "-c", "-o", out}
	if race {
		out = filepath.Join(verifDir, ".build", fmt.Sprintf("sim.race.%d.test", os.Getpid()))
		args = []string{"test", "-race", "-c", "-o", out}
	}
	if mf := os.Getenv("VERIF_MODFILE"); mf != "" {
		args = append(args, "-modfile="+mf)
	}
	args = append(args, ".")
	cmd := exec.Command("go1.26.8", args...)
	cmd.Dir = filepath.Join(verifDir, "sim")
	cmd.Env = goEnv()
	var buf bytes.Buffer
	cmd.Stdout, cmd.Stderr = &buf, &buf
	if err := cmd.Run(); err != nil {
		die(2, "build of the simulator against /repo failed (exit 2 = build trouble, not a violation):\n%s", buf.String())
	}
	builtBins = append(builtBins, out)
	return out
}

func main() {
	defer cleanupBins()
	// binaries left behind by invocations that were killed
	if old, _ := filepath.Glob(filepath.Join(verifDir, ".build", "sim.*.test")); len(old) > 0 {
		for _, f := range old {
			if st, err := os.Stat(f); err == nil && time.Since(st.ModTime()) > 12*time.Hour {
				os.Remove(f)
			}
		}
	}
	if len(os.Args) >= 3 && os.Args[1] == "--replay" {
		replay(os.Args[2])
		return
	}
	if len(os.Args) >= 2 && os.Args[1] == "--determinism" {
		determinism(os.Args[2:])
		return
	}
	if len(os.Args) < 3 {
		die(2, "usage: vcheck <property> quick|thorough | vcheck --replay <file>")
	}
	prop, tier := os.Args[1], os.Args[2]
	if t := os.Getenv("VERIF_TIER"); t == "quick" || t == "thorough" {
		tier = t
	}
	cfg, ok := props[prop]
	if !ok {
		die(2, "property %s is not claimed", prop)
	}
	seed := uint64(1)
	if s := os.Getenv("VERIF_SEED"); s != "" {
		if v, err := strconv.ParseUint(s, 10, 64); err == nil {
			seed = v
		}
	}
	start := time.Now()
	fmt.Printf("vcheck: property=%s tier=%s VERIF_SEED=%d\n", prop, tier, seed)
	os.MkdirAll(filepath.Join(verifDir, ".build"), 0o755)
	os.MkdirAll(filepath.Join(verifDir, "replays"), 0o755)
	evDir := filepath.Join(verifDir, "evidence")
	if d := os.Getenv("VERIF_EVIDENCE_DIR"); d != "" {
		evDir = d // used when checks are run against a seeded change: the committed evidence must come from the unchanged tree
	}
	os.MkdirAll(evDir, 0o755)
	bin := build(false)
	if tier == "thorough" {
		// prove determinism for this property first: a run that does not replay makes every later verdict worthless
		if determinismRun([]string{prop}, false) > 0 {
			die(2, "determinism self-test failed for %s (harness trouble, not a violation)", prop)
		}
	}
	raceBin := ""
	if cfg.Race {
		raceBin = build(true)
	}
	tmp, err := os.MkdirTemp(filepath.Join(verifDir, ".build"), "run-"+prop+"-")
	if err != nil {
		die(2, "%v", err)
	}
	defer os.RemoveAll(tmp)

	workers := runtime.NumCPU()
	if w := os.Getenv("VERIF_WORKERS"); w != "" {
		if v, err := strconv.Atoi(w); err == nil && v > 0 {
			workers = v
		}
	}
	runs, budget := cfg.QuickRuns, cfg.QuickBud
	if tier == "thorough" {
		runs, budget = cfg.ThorRuns, cfg.ThorBud
	}
	if b := os.Getenv("VERIF_BUDGET"); b != "" {
		if d, err := time.ParseDuration(b); err == nil {
			budget = d
		}
	}
	outs := make([]*workerOut, workers)
	var wg sync.WaitGroup
	var mu sync.Mutex
	var trouble []string
	for i := 0; i < workers; i++ {
		wg.Add(1)
		go func(i int) {
			defer wg.Done()
			of := filepath.Join(tmp, fmt.Sprintf("w%d.json", i))
			mode := "serial"
			b := bin
			gmp := "1"
			if cfg.Race && i%2 == 1 {
				mode, b, gmp = "race", raceBin, "4"
			}
			args := []string{"-test.run", "^TestWorker$", "-test.timeout", "0", "-prop", prop, "-tier", tier, "-seed", fmt.Sprint(seed), "-worker", fmt.Sprint(i), "-workers", fmt.Sprint(workers),
				"-maxruns", fmt.Sprint(runs), "-budget", budget.String(), "-out", of, "-known", filepath.Join(verifDir, "known_findings.json"),
				"-replaydir", filepath.Join(verifDir, "replays"), "-mode", mode, "-beginlog", filepath.Join(tmp, fmt.Sprintf("begin%d.json", i))}
			cmd := exec.Command(b, args...)
			cmd.Dir = tmp
			cmd.Env = append(os.Environ(), "GOMAXPROCS="+gmp, "GORACE=halt_on_error=1 exitcode=66")
			var buf bytes.Buffer
			cmd.Stdout, cmd.Stderr = &buf, &buf
			done := make(chan error, 1)
			if err := cmd.Start(); err != nil {
				mu.Lock()
				trouble = append(trouble, fmt.Sprintf("worker %d: %v", i, err))
				mu.Unlock()
				return
			}
			go func() { done <- cmd.Wait() }()
			var werr error
			select {
			case werr = <-done:
			case <-time.After(budget*3 + 4*time.Minute):
				cmd.Process.Kill()
				mu.Lock()
				trouble = append(trouble, fmt.Sprintf("worker %d: watchdog: exceeded %v", i, budget*3+4*time.Minute))
				mu.Unlock()
				return
			}
			if mode == "race" && bytes.Contains(buf.Bytes(), []byte("WARNING: DATA RACE")) {
				o := &workerOut{Prop: prop, Fired: map[string]int{}, Probes: map[string]int{}, Known: map[string]int{}}
				o.Violation = raceViolation(tmp, i, prop, seed, buf.String())
				if o.Violation == nil {
					mu.Lock()
					trouble = append(trouble, fmt.Sprintf("worker %d: data race outside /repo code (harness):\n%s", i, abbreviate(buf.String(), 4000)))
					mu.Unlock()
					return
				}
				outs[i] = o
				return
			}
			if werr != nil && prop == "C09" && libraryCrash(buf.String()) {
				// an unrecovered panic outside every handler goroutine (those are wrapped in recover by the simulator): a goroutine the
				// library started itself panicked and took the process down — the worst way for "processing never panics" to fail
				o := &workerOut{Prop: prop, Fired: map[string]int{}, Probes: map[string]int{}, Known: map[string]int{}}
				o.Violation = crashViolation(b, tmp, i, prop, seed, buf.String())
				if o.Violation != nil {
					outs[i] = o
					return
				}
			}
			b2, rerr := os.ReadFile(of)
			if werr != nil || rerr != nil {
				mu.Lock()
				trouble = append(trouble, fmt.Sprintf("worker %d failed: %v %v\n%s", i, werr, rerr, abbreviate(buf.String(), 4000)))
				mu.Unlock()
				return
			}
			var o workerOut
			if err := json.Unmarshal(b2, &o); err != nil {
				mu.Lock()
				trouble = append(trouble, fmt.Sprintf("worker %d: bad output: %v", i, err))
				mu.Unlock()
				return
			}
			if o.HarnessErr != "" {
				mu.Lock()
				trouble = append(trouble, fmt.Sprintf("worker %d harness error: %s", i, abbreviate(o.HarnessErr, 3000)))
				mu.Unlock()
			}
			outs[i] = &o
		}(i)
	}
	wg.Wait()
	if len(trouble) > 0 {
		die(2, "harness trouble (not a violation):\n%s", strings.Join(trouble, "\n"))
	}

	// merge
	hashes, sched, state := map[uint64]bool{}, map[uint64]bool{}, map[uint64]bool{}
	fired, probes, outcomes, known := map[string]int{}, map[string]int{}, map[string]int{}, map[string]int{}
	knownWhat := map[string]string{}
	var total workerOut
	var samples []json.RawMessage
	var viols []*violation
	exhaustive := true
	for _, o := range outs {
		if o == nil {
			continue
		}
		total.Runs += o.Runs
		total.Unbuilt += o.Unbuilt
		total.SimS += o.SimS
		total.Steps += o.Steps
		total.NoOps += o.NoOps
		total.Tasks += o.Tasks
		total.RunsFlow += o.RunsFlow
		total.Enumerated += o.Enumerated
		total.Pairs += o.Pairs
		if !o.Exhaustive {
			exhaustive = false
		}
		for _, h := range o.Hashes {
			hashes[h] = true
		}
		for _, h := range o.SchedHash {
			sched[h] = true
		}
		for _, h := range o.StateHash {
			state[h] = true
		}
		for k, v := range o.Fired {
			fired[k] += v
		}
		for k, v := range o.Probes {
			probes[k] += v
		}
		for k, v := range o.Outcomes {
			outcomes[k] += v
		}
		for k, v := range o.Known {
			known[k] += v
			knownWhat[k] = o.KnownWhat[k]
		}
		if len(samples) < 3 && len(o.Samples) > 0 {
			samples = append(samples, o.Samples[0])
		}
		if o.Violation != nil {
			viols = append(viols, o.Violation)
		}
	}
	realIDs := map[string]any{}
	if prop == "C15" {
		n := 200000
		if tier == "thorough" {
			n = 2000000
		}
		of := filepath.Join(tmp, "realids.json")
		cmd := exec.Command(bin, "-test.run", "^TestRealIDs$", "-test.timeout", "0", "-realids", fmt.Sprint(n), "-out", of)
		cmd.Env = append(os.Environ(), "GOMAXPROCS=16")
		if out, err := cmd.CombinedOutput(); err != nil {
			die(2, "real-ID stage failed to run: %v\n%s", err, abbreviate(string(out), 2000))
		}
		b, err := os.ReadFile(of)
		if err != nil || json.Unmarshal(b, &realIDs) != nil {
			die(2, "real-ID stage wrote no result")
		}
		d, _ := realIDs["duplicates"].(float64)
		il, _ := realIDs["illegal"].(float64)
		pn, _ := realIDs["panics"].(float64)
		// the same stage, smaller, under the race detector
		raceOut, _ := func() ([]byte, error) {
			c := exec.Command(raceBin, "-test.run", "^TestRealIDs$", "-test.timeout", "0", "-realids", "32000")
			c.Env = append(os.Environ(), "GOMAXPROCS=8", "GORACE=halt_on_error=0")
			return c.CombinedOutput()
		}()
		raced := bytes.Contains(raceOut, []byte("WARNING: DATA RACE")) && bytes.Contains(raceOut, []byte("github.com/zitadel/saml/"))
		realIDs["data_race_in_id_generation"] = raced
		if d > 0 || il > 0 || pn > 0 || raced {
			path := filepath.Join(verifDir, "replays", fmt.Sprintf("C15-realids-%d.json", seed))
			nb, _ := json.MarshalIndent(map[string]any{"format": 1, "property": "C15", "stage": "realids", "ids": n, "result": realIDs}, "", " ")
			os.WriteFile(path, nb, 0o644)
			obs := string(b)
			if raced {
				obs += "\n" + abbreviate(string(raceOut), 2500)
			}
			fmt.Printf("  rule: C15.4 ids (real randomness source, 16 goroutines)\n  key: C15:ids:real-source\n  expected: pairwise distinct legal IDs, no panic, no data race\n  observed: %s\nVIOLATION property=C15 replay=%s\n", obs, path)
			exit(1)
		}
	}
	wall := time.Since(start).Seconds()

	// every violation must reproduce from its replay file in a fresh process
	seenKey := map[string]bool{}
	var confirmed, unconfirmed []*violation
	for _, v := range viols {
		if seenKey[v.Key] {
			continue
		}
		seenKey[v.Key] = true
		b := bin
		if strings.HasPrefix(v.Key, "C15:race") {
			b = raceBin
		}
		ok := replayOK(b, v.Replay)
		for try := 0; !ok && try < 4 && strings.Contains(v.Replay, "-w") && isRaceWorker(cfg, v.Replay); try++ {
			ok = replayOK(raceBin, v.Replay) // overlap windows really overlap: the verdict of an isolation oracle may need a few tries
		}
		for try := 0; !ok && try < 6 && !(v.PrefixReplay != "" && prefixReplayOK(b, v.PrefixReplay)); try++ {
			// neither the plan nor the process prefix reproduces at the first attempt. The simulator is deterministic (self-test),
			// so the remaining source of variation is the code under test itself — a reply that depends on Go's randomised map
			// iteration order, say. Such a violation reproduces with some probability per attempt; it is reported with that note.
			if ok = replayOK(b, v.Replay); ok {
				fmt.Printf("vcheck: note: %s reproduced only at replay attempt %d: the code under test is itself nondeterministic for this plan\n", v.Key, try+2)
			}
		}
		if !ok {
			// the minimised plan alone does not reproduce: does the violation depend on state the library carried over from
			// earlier runs of the same process? Then the worker's case sequence up to the failing case reproduces it.
			if v.PrefixReplay != "" && prefixReplayOK(b, v.PrefixReplay) {
				fmt.Printf("vcheck: %s reproduces only together with the runs that preceded it in the same process (state kept by the library across requests); reporting the unminimised process-prefix replay\n", v.Key)
				v.Replay = v.PrefixReplay
			} else {
				unconfirmed = append(unconfirmed, v)
				continue
			}
		}
		confirmed = append(confirmed, v)
	}

	if len(confirmed) == 0 && len(unconfirmed) > 0 {
		die(2, "replay of %s did not reproduce %s — harness error, not reported as a violation", unconfirmed[0].Replay, unconfirmed[0].Key)
	}
	for _, v := range unconfirmed {
		fmt.Printf("vcheck: note: %s (worker replay %s) did not reproduce in a fresh process and is not reported\n", v.Key, v.Replay)
	}
	missing := []string{}
	if tier == "thorough" {
		for _, p := range cfg.Required {
			if probes[p] == 0 && fired[p] == 0 {
				missing = append(missing, p)
			}
		}
	}

	rule := cfg.Rule
	if rule == "" {
		rule = ruleGeneric
	}
	cov := map[string]any{
		"evaluations":                total.Runs,
		"distinct_nontrivial":        len(hashes),
		"rule":                       rule,
		"samples":                    samples,
		"distinct_schedules":         len(sched),
		"distinct_abstract_states":   len(state),
		"faults_fired":               fired,
		"probes":                     probes,
		"outcomes":                   outcomes,
		"runs_with_full_flow":        total.RunsFlow,
		"simulated_time_covered_s":   total.SimS,
		"steps_executed":             total.Steps,
		"steps_noop":                 total.NoOps,
		"tasks_run":                  total.Tasks,
		"worlds_not_constructible":   total.Unbuilt,
		"runs_per_hour":              float64(total.Runs) / wall * 3600,
		"workers":                    workers,
		"seeds":                      fmt.Sprintf("VERIF_SEED=%d → per-worker, per-batch rapid seeds by splitmix64(seed, worker, batch)", seed),
		"components_real":            compReal,
		"components_stub":            compStub,
		"known_findings_hit":         known,
		"required_probes_missing":    missing,
		"exhaustive":                 exhaustive && total.Enumerated > 0,
		"enumerated_fault_scenarios": total.Enumerated,
		"enumerated_edit_pairs":      total.Pairs,
	}
	if len(realIDs) > 0 {
		cov["real_randomness_id_stage"] = realIDs
	}
	ev := map[string]any{
		"property_id": prop, "tier": tier, "seed": seed, "level": cfg.Level, "coverage": cov,
		"assumptions": append(append([]string{}, commonAssume...), cfg.Assume...), "wall_s": wall, "violations": len(confirmed),
	}
	b, _ := json.MarshalIndent(ev, "", " ")
	if err := os.WriteFile(filepath.Join(evDir, prop+".json"), b, 0o644); err != nil {
		die(2, "cannot write evidence: %v", err)
	}
	fmt.Printf("vcheck: %d simulated runs, %d distinct non-trivial, %d schedules, %.0f simulated s, %.1f s wall\n", total.Runs, len(hashes), len(sched), total.SimS, wall)
	keys := make([]string, 0, len(known))
	for k := range known {
		keys = append(keys, k)
	}
	sort.Strings(keys)
	for _, k := range keys {
		fmt.Printf("KNOWN-FINDING: property=%s %s — %s (hit %d times)\n", prop, k, knownWhat[k], known[k])
	}
	if len(confirmed) > 0 {
		for _, v := range confirmed {
			fmt.Printf("  rule: %s\n  key: %s\n  expected: %s\n  observed: %s\n  steps: %d → %d after shrinking\n", v.Rule, v.Key, v.Expected, v.Observed, v.StepsBefore, v.StepsAfter)
			fmt.Printf("VIOLATION property=%s replay=%s\n", prop, v.Replay)
		}
		exit(1)
	}
	if len(missing) > 0 {
		die(2, "thorough tier: required probes stuck at zero: %v (workload or fault mix must change; not a violation)", missing)
	}
	fmt.Printf("vcheck: property %s held on everything explored\n", prop)
}

// isRaceWorker: odd workers of a property with a race stage run in race mode (see the worker fan-out).
func isRaceWorker(cfg propCfg, replay string) bool {
	if !cfg.Race {
		return false
	}
	i := strings.Index(replay, "-w")
	if i < 0 {
		return false
	}
	n := 0
	for _, c := range replay[i+2:] {
		if c < '0' || c > '9' {
			break
		}
		n = n*10 + int(c-'0')
	}
	return n%2 == 1
}

func prefixReplayOK(bin, path string) bool {
	cmd := exec.Command(bin, "-test.run", "^TestPrefixReplay$", "-test.timeout", "0", "-prefixreplay", path)
	out, _ := cmd.CombinedOutput()
	return bytes.Contains(out, []byte("REPLAY-REPRODUCED"))
}

func replayOK(bin, path string) bool {
	cmd := exec.Command(bin, "-test.run", "^TestReplay$", "-test.timeout", "0", "-replay", path)
	cmd.Env = append(os.Environ(), "GORACE=halt_on_error=1 exitcode=66")
	out, _ := cmd.CombinedOutput()
	if strings.Contains(path, "C15-race") {
		return bytes.Contains(out, []byte("WARNING: DATA RACE"))
	}
	if strings.Contains(filepath.Base(path), "C09-crash") {
		return libraryCrash(string(out))
	}
	return bytes.Contains(out, []byte("REPLAY-REPRODUCED"))
}

func replay(path string) {
	if strings.Contains(filepath.Base(path), "C15-realids") {
		bin := build(false)
		out, _ := exec.Command(bin, "-test.run", "^TestRealIDs$", "-test.timeout", "0", "-realids", "2000000").CombinedOutput()
		os.Stdout.Write(out)
		raceOut, _ := exec.Command(build(true), "-test.run", "^TestRealIDs$", "-test.timeout", "0", "-realids", "32000").CombinedOutput()
		raced := bytes.Contains(raceOut, []byte("WARNING: DATA RACE")) && bytes.Contains(raceOut, []byte("github.com/zitadel/saml/"))
		if raced {
			os.Stdout.Write(raceOut[:min(len(raceOut), 4000)])
		}
		if !raced && bytes.Contains(out, []byte(`"duplicates":0`)) && bytes.Contains(out, []byte(`"illegal":0`)) && bytes.Contains(out, []byte(`"panics":0`)) {
			fmt.Println("vcheck: the ID stage found no duplicate or illegal ID on this tree")
			return
		}
		fmt.Printf("VIOLATION property=C15 replay=%s\n", path)
		exit(1)
	}
	if strings.HasSuffix(path, ".prefix.json") {
		bin := build(false)
		out, _ := exec.Command(bin, "-test.run", "^TestPrefixReplay$", "-test.timeout", "0", "-prefixreplay", path).CombinedOutput()
		os.Stdout.Write(out)
		prop := strings.SplitN(filepath.Base(path), "-", 2)[0]
		if bytes.Contains(out, []byte("REPLAY-REPRODUCED")) {
			fmt.Printf("VIOLATION property=%s replay=%s\n", prop, path)
			exit(1)
		}
		if bytes.Contains(out, []byte("REPLAY-ERROR")) {
			exit(2)
		}
		fmt.Println("vcheck: replay did not reproduce the recorded violation on this tree")
		return
	}
	raceMode := strings.Contains(filepath.Base(path), "C15-race")
	bin := build(raceMode)
	cmd := exec.Command(bin, "-test.run", "^TestReplay$", "-test.timeout", "0", "-replay", path, "-trace")
	cmd.Env = append(os.Environ(), "GORACE=halt_on_error=1 exitcode=66")
	out, _ := cmd.CombinedOutput()
	os.Stdout.Write(out)
	prop := strings.SplitN(filepath.Base(path), "-", 2)[0]
	if bytes.Contains(out, []byte("REPLAY-REPRODUCED")) || (raceMode && bytes.Contains(out, []byte("WARNING: DATA RACE"))) ||
		(strings.Contains(filepath.Base(path), "C09-crash") && libraryCrash(string(out))) {
		fmt.Printf("VIOLATION property=%s replay=%s\n", prop, path)
		exit(1)
	}
	if bytes.Contains(out, []byte("REPLAY-ERROR")) || bytes.Contains(out, []byte("REPLAY-MISMATCH")) {
		exit(2)
	}
	fmt.Println("vcheck: replay did not reproduce the recorded violation on this tree")
}

// raceViolation turns a race report whose stacks include /repo frames into a violation with the plan that was running.
func raceViolation(tmp string, worker int, prop string, seed uint64, output string) *violation {
	if !strings.Contains(output, "github.com/zitadel/saml/") {
		return nil
	}
	begin := filepath.Join(tmp, fmt.Sprintf("begin%d.json", worker))
	b, err := os.ReadFile(begin)
	if err != nil {
		return nil
	}
	var plan map[string]any
	if json.Unmarshal(b, &plan) != nil {
		return nil
	}
	fn := "unknown"
	for _, line := range strings.Split(output, "\n") {
		line = strings.TrimSpace(line)
		if strings.HasPrefix(line, "github.com/zitadel/saml/") {
			fn = strings.TrimPrefix(line, "github.com/zitadel/saml/pkg/")
			if i := strings.Index(fn, "("); i > 0 && !strings.HasPrefix(fn[i:], "(*") {
				fn = fn[:i]
			}
			break
		}
	}
	key := "C15:race:" + fn
	plan["violation"] = map[string]any{"rule": "C15.3 data race", "key": key, "expected": "no data race between concurrently served requests",
		"observed": abbreviate(output, 3000), "task": -1}
	path := filepath.Join(verifDir, "replays", fmt.Sprintf("C15-race-%d-w%d.json", seed, worker))
	nb, _ := json.MarshalIndent(plan, "", " ")
	if os.WriteFile(path, nb, 0o644) != nil {
		return nil
	}
	return &violation{Rule: "C15.3 data race", Key: key, Expected: "no data race between concurrently served requests (go test -race, overlap windows chosen by the plan)",
		Observed: abbreviate(output, 3000), Replay: path}
}

// libraryCrash: did the process die of a Go panic whose panicking goroutine was executing /repo code? (The simulator recovers
// panics of handler goroutines and of the registration API itself, so what is left are goroutines the library started.)
func libraryCrash(output string) bool {
	i := strings.Index(output, "\npanic: ")
	if i < 0 && strings.HasPrefix(output, "panic: ") {
		i = 0
	}
	if i < 0 || strings.Contains(output[i:], "panic: test timed out") {
		return false
	}
	rest := output[i:]
	j := strings.Index(rest, "\ngoroutine ")
	if j < 0 {
		return false
	}
	blk := rest[j+1:]
	if k := strings.Index(blk, "\n\n"); k > 0 {
		blk = blk[:k]
	}
	return strings.Contains(blk, "github.com/zitadel/saml/")
}

func crashFunc(output string) string {
	i := strings.Index(output, "panic: ")
	if i < 0 {
		return "unknown"
	}
	for _, line := range strings.Split(output[i:], "\n") {
		line = strings.TrimSpace(line)
		if strings.HasPrefix(line, "github.com/zitadel/saml/") {
			fn := strings.TrimPrefix(line, "github.com/zitadel/saml/pkg/")
			if k := strings.LastIndex(fn, "("); k > 0 {
				fn = fn[:k]
			}
			return fn
		}
	}
	return "unknown"
}

// crashViolation turns a worker that died of a library panic into a violation: the plan it was executing (written to the begin
// log before every run) is the replay; steps are then removed greedily while the crash persists.
func crashViolation(bin, tmp string, worker int, prop string, seed uint64, output string) *violation {
	b, err := os.ReadFile(filepath.Join(tmp, fmt.Sprintf("begin%d.json", worker)))
	if err != nil {
		return nil
	}
	var plan map[string]any
	if json.Unmarshal(b, &plan) != nil {
		return nil
	}
	fn := crashFunc(output)
	key := "C09:crash:panic-in-a-goroutine-started-by-the-library:" + fn
	i := strings.Index(output, "panic: ")
	obs := abbreviate(output[i:], 2500)
	path := filepath.Join(verifDir, "replays", fmt.Sprintf("C09-crash-%d-w%d.json", seed, worker))
	write := func(p map[string]any) bool {
		p["violation"] = map[string]any{"rule": "C09 process-crash", "key": key, "expected": "processing terminates with a regular HTTP response or a returned error; it never panics",
			"observed": obs, "task": -1}
		nb, _ := json.MarshalIndent(p, "", " ")
		return os.WriteFile(path, nb, 0o644) == nil
	}
	if !write(plan) {
		return nil
	}
	steps, _ := plan["steps"].([]any)
	before := len(steps)
	if replayOK(bin, path) {
		tries := 0
		for k := len(steps) - 1; k >= 0 && tries < 150; k-- {
			cand := append(append([]any{}, steps[:k]...), steps[k+1:]...)
			plan["steps"] = cand
			write(plan)
			tries++
			if replayOK(bin, path) && crashFuncOfReplay(bin, path) == fn {
				steps = cand
			}
		}
		plan["steps"] = steps
		write(plan)
	}
	return &violation{Rule: "C09 process-crash", Key: key, Expected: "processing terminates with a regular HTTP response or a returned error; it never panics (a panic in a goroutine the library starts takes the whole process down)",
		Observed: obs, Replay: path, StepsBefore: before, StepsAfter: len(steps)}
}

func crashFuncOfReplay(bin, path string) string {
	out, _ := exec.Command(bin, "-test.run", "^TestReplay$", "-test.timeout", "0", "-replay", path).CombinedOutput()
	return crashFunc(string(out))
}

func abbreviate(s string, n int) string {
	if len(s) <= n {
		return s
	}
	return s[:n/2] + "\n…\n" + s[len(s)-n/2:]
}

// determinism: for every claimed property, the same seed must give byte-identical history digests in separate
// processes under GOMAXPROCS 1, 4 and 16 (two runs each). Exit 2 on any difference.
func determinism(args []string) {
	if determinismRun(args, true) > 0 {
		exit(2)
	}
}

func determinismRun(args []string, verbose bool) int {
	bin := build(false)
	var ps []string
	for _, a := range args {
		if _, ok := props[a]; ok {
			ps = append(ps, a)
		}
	}
	if len(ps) == 0 {
		for p := range props {
			ps = append(ps, p)
		}
	}
	sort.Strings(ps)
	seeds := []string{"1", "2", "3", "5", "8", "13", "21", "34"}
	if k, err := strconv.Atoi(os.Getenv("VERIF_DET_SEEDS")); err == nil && k > 0 {
		seeds = nil
		for i := 1; i <= k; i++ {
			seeds = append(seeds, fmt.Sprint(i*7919+1))
		}
	}
	n := "12"
	type job struct{ prop, seed, gmp string }
	results := map[job]string{}
	var mu sync.Mutex
	var wg sync.WaitGroup
	sem := make(chan struct{}, runtime.NumCPU())
	gmps := []string{"1", "1", "4", "16", "16"}
	for _, p := range ps {
		for _, s := range seeds {
			for gi, g := range gmps {
				wg.Add(1)
				go func(p, s, g string, gi int) {
					defer wg.Done()
					sem <- struct{}{}
					defer func() { <-sem }()
					cmd := exec.Command(bin, "-test.run", "^TestDigests$", "-test.timeout", "0", "-prop", p, "-seed", s, "-digests", n)
					cmd.Env = append(os.Environ(), "GOMAXPROCS="+g)
					out, _ := cmd.CombinedOutput()
					var lines []string
					for _, l := range strings.Split(string(out), "\n") {
						if strings.HasPrefix(l, "DIGEST ") {
							lines = append(lines, l)
						}
					}
					mu.Lock()
					results[job{p, s, fmt.Sprintf("%s#%d", g, gi)}] = strings.Join(lines, "\n")
					mu.Unlock()
				}(p, s, g, gi)
			}
		}
	}
	wg.Wait()
	bad := 0
	total := 0
	for _, p := range ps {
		for _, s := range seeds {
			ref := results[job{p, s, "1#0"}]
			if ref == "" {
				fmt.Printf("determinism: %s seed %s produced no digests\n", p, s)
				bad++
			}
			for gi, g := range gmps {
				total++
				if got := results[job{p, s, fmt.Sprintf("%s#%d", g, gi)}]; got != ref {
					bad++
					fmt.Printf("determinism: MISMATCH property=%s seed=%s GOMAXPROCS=%s run %d\n--- reference\n%s\n--- got\n%s\n", p, s, g, gi, abbreviate(ref, 1500), abbreviate(got, 1500))
				}
			}
		}
	}
	fmt.Printf("determinism: %d properties × %d seeds × %d processes (GOMAXPROCS 1,1,4,16,16) × %s plans each: %d comparisons, %d mismatches\n", len(ps), len(seeds), len(gmps), n, total, bad)
	return bad
}
