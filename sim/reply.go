package sim

// Oracle 4 (browser form reader) and the independent decoding of every reply
// into what a browser / SP would see. Nothing here uses /repo's decoders.

import (
	"bytes"
	"encoding/base64"
	"fmt"
	"net/http"
	"net/url"
	"strings"

	"golang.org/x/net/html"
)

type FormView struct {
	Action string
	Method string
	Fields []rawParam // hidden inputs in document order (Key=name, RawVal=value)
	NForms int
}

func parseForms(body []byte) (*FormView, error) {
	doc, err := html.Parse(bytes.NewReader(body))
	if err != nil {
		return nil, err
	}
	var forms []*html.Node
	var walk func(n *html.Node)
	walk = func(n *html.Node) {
		if n.Type == html.ElementNode && n.Data == "form" {
			forms = append(forms, n)
		}
		for c := n.FirstChild; c != nil; c = c.NextSibling {
			walk(c)
		}
	}
	walk(doc)
	if len(forms) == 0 {
		return nil, fmt.Errorf("no form")
	}
	fv := &FormView{NForms: len(forms)}
	f := forms[0]
	for _, a := range f.Attr {
		switch a.Key {
		case "action":
			fv.Action = a.Val
		case "method":
			fv.Method = strings.ToUpper(a.Val)
		}
	}
	var walkIn func(n *html.Node)
	walkIn = func(n *html.Node) {
		if n.Type == html.ElementNode && n.Data == "input" {
			var name, val, typ string
			for _, a := range n.Attr {
				switch a.Key {
				case "name":
					name = a.Val
				case "value":
					val = a.Val
				case "type":
					typ = a.Val
				}
			}
			if typ == "hidden" {
				fv.Fields = append(fv.Fields, rawParam{name, val})
			}
		}
		for c := n.FirstChild; c != nil; c = c.NextSibling {
			walkIn(c)
		}
	}
	walkIn(f)
	return fv, nil
}

// Reply kinds.
const (
	RKForm         = "form"          // HTML auto-submit page carrying a SAML message
	RKRedirectSAML = "redirect-saml" // 302 with SAMLResponse in the query
	RKRedirect     = "redirect"      // any other redirect (e.g. 303 to the login UI)
	RKXML          = "xml"           // SAML message in the body
	RKSOAP         = "soap"          // SOAP envelope in the body
	RKMetadata     = "metadata"
	RKPEM          = "pem"
	RKJSON         = "json"
	RKText         = "text" // plain error text
	RKEmpty        = "empty"
	RKOther        = "other"
)

type AttrView struct {
	Name, NameFormat, FriendlyName string
	Values                         []string
}

type AssertionView struct {
	Node                    *Node
	ID, IssueInstant        string
	Version                 string
	Issuer                  string
	HasSubject              bool
	NameID, NameIDFormat    string
	HasNameID               bool
	SCDInResponseTo         string
	SCDRecipient            string
	SCDNotOnOrAfter         string
	HasConditions           bool
	NotBefore, NotOnOrAfter string
	Audiences               []string
	Attrs                   []AttrView
	NAttrStatements         int
	AuthnInstant            string
	SessionIndex            string
	NSignatures             int
}

type MsgView struct {
	Root                          *Node  // the SAML protocol element (Response / LogoutResponse)
	Kind                          string // local name
	ID, InResponseTo, Destination string
	HasInResponseTo               bool
	IssueInstant, Version         string
	Issuer                        string
	HasIssuer                     bool
	StatusCode, StatusMessage     string
	NStatus                       int
	Assertions                    []*AssertionView
	Success                       bool
}

type Reply struct {
	Status int
	Header http.Header
	Body   []byte

	Kind       string
	Target     string // where the browser would deliver the message (form action / Location minus SAML query)
	Location   string // raw Location header
	RawQuery   string // raw query of the Location header
	Method     string
	RelayState string
	HasRelay   bool
	NRelay     int
	SAMLXML    []byte // the protocol message bytes
	Doc        *Node  // parsed document (root of body / decoded message)
	Msg        *MsgView
	Form       *FormView
	DecodeErr  string // set when the reply claims to carry a message that does not decode
	NMessages  int    // number of SAML protocol messages found in the reply
}

func viewAssertion(a *Node) *AssertionView {
	v := &AssertionView{Node: a}
	v.ID = a.Attr("ID")
	v.IssueInstant = a.Attr("IssueInstant")
	v.Version = a.Attr("Version")
	v.Issuer = a.Child(NSA, "Issuer").TextContent()
	if s := a.Child(NSA, "Subject"); s != nil {
		v.HasSubject = true
		if n := s.Child(NSA, "NameID"); n != nil {
			v.HasNameID = true
			v.NameID = n.TextContent()
			v.NameIDFormat = n.Attr("Format")
		}
		if d := s.Path(NSA, "SubjectConfirmation", NSA, "SubjectConfirmationData"); d != nil {
			v.SCDInResponseTo = d.Attr("InResponseTo")
			v.SCDRecipient = d.Attr("Recipient")
			v.SCDNotOnOrAfter = d.Attr("NotOnOrAfter")
		}
	}
	if c := a.Child(NSA, "Conditions"); c != nil {
		v.HasConditions = true
		v.NotBefore = c.Attr("NotBefore")
		v.NotOnOrAfter = c.Attr("NotOnOrAfter")
		for _, ar := range c.Childs(NSA, "AudienceRestriction") {
			for _, au := range ar.Elems() {
				v.Audiences = append(v.Audiences, au.TextContent())
			}
		}
	}
	for _, st := range a.Childs(NSA, "AttributeStatement") {
		v.NAttrStatements++
		for _, at := range st.Childs(NSA, "Attribute") {
			av := AttrView{Name: at.Attr("Name"), NameFormat: at.Attr("NameFormat"), FriendlyName: at.Attr("FriendlyName")}
			for _, val := range at.Elems() {
				av.Values = append(av.Values, val.TextContent())
			}
			v.Attrs = append(v.Attrs, av)
		}
	}
	if as := a.Child(NSA, "AuthnStatement"); as != nil {
		v.AuthnInstant = as.Attr("AuthnInstant")
		v.SessionIndex = as.Attr("SessionIndex")
	}
	v.NSignatures = len(a.FindAll(NSDS, "Signature"))
	return v
}

func viewMessage(root *Node) *MsgView {
	m := &MsgView{Root: root, Kind: root.Local}
	m.ID = root.Attr("ID")
	m.InResponseTo, m.HasInResponseTo = root.AttrOK("InResponseTo")
	m.Destination = root.Attr("Destination")
	m.IssueInstant = root.Attr("IssueInstant")
	m.Version = root.Attr("Version")
	if is := root.Child(NSA, "Issuer"); is != nil {
		m.HasIssuer = true
		m.Issuer = is.TextContent()
	}
	sts := root.Childs(NSP, "Status")
	m.NStatus = len(sts)
	if len(sts) > 0 {
		m.StatusCode = sts[0].Child(NSP, "StatusCode").Attr("Value")
		m.StatusMessage = sts[0].Child(NSP, "StatusMessage").TextContent()
	}
	m.Success = m.StatusCode == "urn:oasis:names:tc:SAML:2.0:status:Success"
	for _, a := range root.Childs(NSA, "Assertion") {
		m.Assertions = append(m.Assertions, viewAssertion(a))
	}
	return m
}

// protocolRoot finds the SAML protocol message inside a parsed body (directly, or inside a SOAP envelope).
func protocolRoot(doc *Node) (*Node, bool) {
	if doc == nil {
		return nil, false
	}
	if doc.NS == NSSOAP && doc.Local == "Envelope" {
		body := doc.Child(NSSOAP, "Body")
		for _, e := range body.Elems() {
			if e.NS == NSP {
				return e, true
			}
		}
		return nil, true
	}
	if doc.NS == NSP {
		return doc, false
	}
	return nil, false
}

// DecodeReply interprets a recorded HTTP reply the way a browser followed by an SP would.
func DecodeReply(status int, hdr http.Header, body []byte) *Reply {
	r := &Reply{Status: status, Header: hdr, Body: body}
	trim := bytes.TrimSpace(body)
	if loc := hdr.Get("Location"); status >= 300 && status < 400 && loc != "" {
		r.Location = loc
		r.Method = "GET"
		base, q, hasQ := strings.Cut(loc, "?")
		// The SAML query is whatever follows the *last* '?' only if the IdP appended one to a URL
		// that already had a query; a URL parser (and every SP) splits at the first '?'.
		r.RawQuery = q
		if hasQ {
			ps := splitRawQuery(q)
			raw, n := firstRaw(ps, "SAMLResponse")
			if n > 0 {
				r.Kind = RKRedirectSAML
				// the target is the URL without the parameters the binding adds
				var own []rawParam
				for _, p := range ps {
					switch p.Key {
					case "SAMLResponse", "SAMLRequest", "RelayState", "Signature", "SigAlg", "SAMLEncoding":
					default:
						own = append(own, p)
					}
				}
				r.Target = base
				if len(own) > 0 {
					r.Target += "?" + joinRaw(own)
				}
				r.NMessages = n
				rs, nrs := firstRaw(ps, "RelayState")
				r.NRelay = nrs
				if nrs > 0 {
					r.HasRelay = true
					r.RelayState, _ = pctDecode(rs)
				}
				dec, ok := pctDecode(raw)
				if !ok {
					r.DecodeErr = "SAMLResponse not percent-decodable"
					return r
				}
				b, err := base64.StdEncoding.DecodeString(dec)
				if err != nil {
					r.DecodeErr = "SAMLResponse not base64: " + err.Error()
					return r
				}
				x, err := inflateRaw(b, 8<<20)
				if err != nil {
					r.DecodeErr = "SAMLResponse not DEFLATE: " + err.Error()
					return r
				}
				r.SAMLXML = x
				r.finishMessage()
				return r
			}
		}
		r.Kind = RKRedirect
		r.Target = loc
		return r
	}
	if len(trim) == 0 {
		r.Kind = RKEmpty
		return r
	}
	ct := hdr.Get("Content-Type")
	low := bytes.ToLower(trim)
	if bytes.Contains(low, []byte("<form")) && (bytes.HasPrefix(low, []byte("<!doctype html")) || bytes.Contains(low, []byte("<html"))) {
		// a browser renders (and auto-submits) the page only when it is served as HTML: no Content-Type at all (it sniffs,
		// and this body starts like HTML) or an HTML media type; text/plain, application/xml, JSON, octet-stream … are shown or downloaded
		if mt, _, _ := strings.Cut(strings.ToLower(ct), ";"); strings.TrimSpace(mt) != "" {
			switch strings.TrimSpace(mt) {
			case "text/html", "application/xhtml+xml":
			default:
				r.Kind = RKOther
				r.DecodeErr = "auto-submit page served as " + strings.TrimSpace(mt) + ": a browser does not render it"
				return r
			}
		}
		fv, err := parseForms(body)
		if err != nil {
			r.Kind = RKOther
			r.DecodeErr = "html without form: " + err.Error()
			return r
		}
		r.Kind = RKForm
		r.Form = fv
		r.Target = fv.Action
		r.Method = fv.Method
		var msgs []string
		for _, f := range fv.Fields {
			switch f.Key {
			case "SAMLResponse", "SAMLRequest":
				msgs = append(msgs, f.RawVal)
			case "RelayState":
				r.NRelay++
				if !r.HasRelay {
					r.HasRelay = true
					r.RelayState = f.RawVal
				}
			}
		}
		r.NMessages = len(msgs) * fv.NForms
		if len(msgs) == 0 {
			r.DecodeErr = "form without SAML message field"
			return r
		}
		b, err := base64.StdEncoding.DecodeString(msgs[0])
		if err != nil {
			r.DecodeErr = "form SAMLResponse not base64: " + err.Error()
			return r
		}
		r.SAMLXML = b
		// anything after </html> is a concatenated second message / error text
		if i := bytes.LastIndex(low, []byte("</html>")); i >= 0 {
			if rest := bytes.TrimSpace(trim[i+len("</html>"):]); len(rest) > 0 {
				r.NMessages++
				r.DecodeErr = "content after </html>: " + abbreviate(string(rest), 80)
			}
		}
		r.finishMessage()
		return r
	}
	if bytes.HasPrefix(trim, []byte("-----BEGIN ")) {
		r.Kind = RKPEM
		return r
	}
	if strings.HasPrefix(ct, "application/json") {
		r.Kind = RKJSON
		return r
	}
	if trim[0] == '<' {
		doc, err := ParseXML(body)
		if err != nil {
			// maybe several concatenated documents, or a document followed by error text
			r.Kind = RKXML
			r.DecodeErr = "body is not one well-formed XML document: " + err.Error()
			r.NMessages = bytes.Count(body, []byte("<?xml"))
			return r
		}
		r.Doc = doc
		switch {
		case doc.NS == NSMD && doc.Local == "EntityDescriptor":
			r.Kind = RKMetadata
			return r
		case doc.NS == NSSOAP:
			r.Kind = RKSOAP
		case doc.NS == NSP:
			r.Kind = RKXML
		default:
			r.Kind = RKOther
			return r
		}
		root, _ := protocolRoot(doc)
		if root == nil {
			r.DecodeErr = "no protocol message in body"
			return r
		}
		r.NMessages = 1
		r.SAMLXML = body
		r.Msg = viewMessage(root)
		return r
	}
	r.Kind = RKText
	return r
}

func (r *Reply) finishMessage() {
	doc, err := ParseXML(r.SAMLXML)
	if err != nil {
		r.DecodeErr = "SAML message is not one well-formed XML document: " + err.Error()
		return
	}
	r.Doc = doc
	root, _ := protocolRoot(doc)
	if root == nil {
		r.DecodeErr = "decoded document is not a SAML protocol message"
		return
	}
	r.Msg = viewMessage(root)
}

// IsSuccess reports whether the reply carries a protocol message with status Success.
func (r *Reply) IsSuccess() bool { return r.Msg != nil && r.Msg.Success }

// urlEquivalent: equality after percent-decoding both sides once (html/template only ever adds percent-encoding).
func urlEquivalent(a, b string) bool {
	if a == b {
		return true
	}
	// a present-but-empty query names the same endpoint as no query (the message parameters are appended to it either way)
	a, b = strings.TrimSuffix(a, "?"), strings.TrimSuffix(b, "?")
	if a == b {
		return true
	}
	da, err1 := url.PathUnescape(a)
	db, err2 := url.PathUnescape(b)
	if err1 != nil {
		da = a
	}
	if err2 != nil {
		db = b
	}
	return da == db
}
