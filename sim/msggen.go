package sim

// Message generators shared by the scenario families: conformant LogoutRequests and AttributeQueries,
// the deviations the property statements list, and the network attacker's tamper operators.

import (
	"fmt"
	"strings"
	"time"
)

func (g G) drawSLO(label string, w *WorldCfg, sp int) *MsgSpec {
	m := &MsgSpec{Kind: "slo", SP: sp, Binding: g.drawBinding(label + ".binding"), Style: g.drawStyle(label + ".style")}
	m.ID = "_" + sessionMarker(g.intn(label+".idn", 1000)) + "lo" + g.text(label+".id", "", false)
	if g.chance(label+".relay", 70) {
		m.HasRelay = true
		m.RelayState = g.text(label+".relayv", "lrelay", false)
		switch g.weighted(label+".relaylen", 90, 6, 4) {
		case 1:
			m.RelayState = padTo(m.RelayState, 80)
		case 2:
			m.RelayState = padTo(m.RelayState, 79)
		}
	}
	m.DestMode = g.pick(label+".dest", "advertised", "advertised", "absent")
	m.IssueInstantNs = -int64(g.rng(label+".ii", 0, 120)) * int64(time.Second)
	if g.chance(label+".nooa", 50) {
		m.HasNotOnOrAfter, m.NotOnOrAfterNs = true, int64(g.rng(label+".nooav", 1, 600))*int64(time.Second)
	}
	m.NameID = "user" + sessionMarker(g.intn(label+".nid", 1000)) + "@example.org"
	if g.chance(label+".si", 50) {
		m.SessionIndex = []string{"_si" + g.text(label+".siv", "", false)}
	}
	return m
}

func (g G) drawAttrQ(label string, w *WorldCfg, sp int) *MsgSpec {
	m := &MsgSpec{Kind: "attrq", SP: sp, Binding: "soap", Style: g.drawStyle(label + ".style")}
	m.ID = "_" + sessionMarker(g.intn(label+".idn", 1000)) + "aq" + g.text(label+".id", "", false)
	m.DestMode = g.pick(label+".dest", "advertised", "absent", "absent")
	m.User = g.intn(label+".user", 4)
	c := &w.SPs[mod(sp, len(w.SPs))]
	if c.HasCert && g.chance(label+".sign", 35) {
		m.Sign = g.pick(label+".alg", "rsa-sha256", "rsa-sha1")
	}
	// requested attributes: none, or a mix of matching / non-matching / duplicated (Name, NameFormat) pairs
	if len(w.Users) > 0 && g.chance(label+".req", 65) {
		u := &w.Users[mod(m.User, len(w.Users))]
		const basic = "urn:oasis:names:tc:SAML:2.0:attrname-format:basic"
		pool := []CustomAttrCfg{{Name: "Email", Format: basic}, {Name: "SurName", Format: basic}, {Name: "FirstName", Format: basic},
			{Name: "FullName", Format: basic}, {Name: "UserName", Format: basic}, {Name: "UserID", Format: basic}}
		for ci, ca := range u.Custom {
			pool = append(pool, CustomAttrCfg{Name: ca.Name, Format: ca.Format, Friendly: ca.Friendly})
			if len(ca.Values) >= 2 && g.chance(fmt.Sprintf("%s.vals%d", label, ci), 50) {
				// the query names some of the values of a multi-valued attribute
				pool = append(pool, CustomAttrCfg{Name: ca.Name, Format: ca.Format, Friendly: ca.Friendly, Values: []string{ca.Values[len(ca.Values)-1]}})
			}
		}
		n := g.rng(label+".nreq", 1, 4)
		for i := 0; i < n; i++ {
			a := pool[g.intn(fmt.Sprintf("%s.req%d", label, i), len(pool))]
			switch g.weighted(fmt.Sprintf("%s.req%d.k", label, i), 60, 15, 15, 10) {
			case 1:
				a.Format = g.pick(fmt.Sprintf("%s.req%d.f", label, i), "", "urn:oasis:names:tc:SAML:2.0:attrname-format:uri", "urn:oasis:names:tc:SAML:2.0:attrname-format:unspecified")
			case 2:
				a.Name = a.Name + "X"
			case 3:
				a.Name = "Unknown" + g.text(fmt.Sprintf("%s.req%d.n", label, i), "", false)
			}
			m.Requested = append(m.Requested, a)
		}
		if g.chance(label+".twofmt", 15) {
			// one Name requested under two name formats, the user's real one first
			a := pool[g.intn(label+".twofmt.a", len(pool))]
			other := a
			other.Format = g.pick(label+".twofmt.f", "urn:oasis:names:tc:SAML:2.0:attrname-format:uri", "urn:oasis:names:tc:SAML:2.0:attrname-format:unspecified", "")
			if other.Format == a.Format {
				other.Format = "urn:example:format:other"
			}
			m.Requested = append(m.Requested, a, other)
		}
		if g.chance(label+".dupreq", 15) && len(m.Requested) > 0 {
			m.Requested = append(m.Requested, m.Requested[0])
		}
	}
	return m
}

// deviate applies one deviation from conformance out of the lists in the statements of C06 / C12 / C13.
func (g G) deviate(label string, m *MsgSpec) {
	opts := []string{"b64-garbage", "b64-garbage", "deflate-cut", "dest-issuer-route", "dest-issuer-route", "dest-metadata-base", "dest-double-slash", "dest-query", "dest-bare-query", "dest-fragment", "dest-userinfo", "dest-pct", "dest-request-host", "dest-request-host", "dest-other-host", "dest-other-host", "issuer-absent", "issuer-empty", "issuer-other", "issuer-rogue", "issuer-lookalike", "issuer-case", "issuer-space",
		"dest-other", "dest-foreign", "dest-case", "dest-upper", "dest-slash", "dest-scheme", "dest-empty",
		"noid", "emptyid", "noversion", "emptyversion", "version11", "timelit", "window-past", "window-future", "encoding", "sigalg-nosig", "empty-request", "double-encode",
		"rogue-sp", "struct"}
	if m.Kind == "attrq" {
		opts = append(opts, "subj-unknown", "subj-absent", "subj-nonameid", "noquery", "envelope", "req-noname", "req-noname")
	}
	switch g.pick(label+".dev", opts...) {
	case "issuer-absent":
		m.IssuerMode = "absent"
	case "issuer-empty":
		m.IssuerMode = "empty"
	case "issuer-other":
		m.IssuerMode = "other-sp"
	case "issuer-rogue":
		m.IssuerMode = "rogue"
	case "issuer-lookalike":
		m.IssuerMode = "lookalike"
	case "issuer-case":
		m.IssuerMode = "lookalike-case"
	case "issuer-space":
		m.IssuerMode = "lookalike-space"
	case "dest-other-host":
		m.DestMode = "other-host"
	case "dest-issuer-route":
		m.DestMode = "issuer-route"
	case "dest-metadata-base":
		m.DestMode = "metadata-base"
	case "dest-double-slash":
		m.DestMode = "double-slash"
	case "dest-query", "dest-bare-query", "dest-fragment", "dest-userinfo", "dest-pct", "dest-request-host":
		m.DestMode = strings.TrimPrefix(g.pick(label+".same", "dest-query", "dest-bare-query", "dest-fragment", "dest-userinfo", "dest-pct", "dest-request-host", "dest-request-host"), "dest-")
	case "b64-garbage":
		m.Tamper = append(m.Tamper, Tamper{Op: "b64_garbage", S: g.pick(label+".bg", "!!!!", "====", "=", "\x00\x00", "%%%", "A", "AAAA====", " <x/>", "*")})
	case "deflate-cut":
		m.Tamper = append(m.Tamper, Tamper{Op: "deflate_cut", A: g.rng(label+".dc", 1, 12), B: g.intn(label+".dcl", 2)})
	case "dest-other":
		m.DestMode = "other-endpoint"
	case "dest-foreign":
		m.DestMode = "foreign"
	case "dest-case":
		m.DestMode = "case"
	case "dest-upper":
		m.DestMode = "upper-path"
	case "dest-slash":
		m.DestMode = "slash"
	case "dest-scheme":
		m.DestMode = "scheme"
	case "dest-empty":
		m.DestMode = "empty"
	case "noid":
		m.NoID = true
	case "emptyid":
		m.Tamper = append(m.Tamper, Tamper{Op: "field", S: "ID="})
	case "noversion":
		m.Version = "-"
	case "emptyversion":
		m.Tamper = append(m.Tamper, Tamper{Op: "field", S: "Version="})
	case "version11":
		m.Version = "1.1"
	case "timelit":
		m.TimeLit = g.pick(label+".tl", "yesterday", "2020-01-01", "2020-01-01T00:00:00", "2020-01-01T00:00:00+01:00", "2020-13-01T00:00:00Z", " 2020-01-01T00:00:00Z", "1577836800", "2020-01-01t00:00:00z", "2020-01-01T24:00:00Z", "--", "0", "0001-01-01T00:00:00Z", "0001-01-01T00:00:00.000Z", "0000-01-01T00:00:00Z", "9999-12-31T23:59:59Z", "1970-01-01T00:00:00Z", "-0001-01-01T00:00:00Z")
		m.TimeLitWhich = g.intn(label+".tlw", 2)
	case "window-past":
		m.HasNotOnOrAfter, m.NotOnOrAfterNs = true, -g.drawSpan(label+".past")
	case "window-future":
		if m.Kind == "slo" {
			m.IssueInstantNs = g.drawSpan(label + ".fut")
		} else {
			m.HasNotBefore, m.NotBeforeNs = true, g.drawSpan(label+".fut")
		}
	case "double-encode":
		m.Tamper = append(m.Tamper, Tamper{Op: "double_encode", S: g.pick(label+".de", "SAMLEncoding", "SAMLRequest", "SAMLRequest", "SigAlg", "Signature")})
	case "encoding":
		m.Tamper = append(m.Tamper, Tamper{Op: "encoding", S: g.pick(label+".enc", "urn:example:unknown", "deflate", "gzip", EncDeflate+" ", "DEFLATE")})
	case "sigalg-nosig":
		m.Sign = ""
		m.Tamper = append(m.Tamper, Tamper{Op: "add_sigalg"})
	case "empty-request":
		m.Tamper = append(m.Tamper, Tamper{Op: "empty_param", S: "SAMLRequest"})
	case "rogue-sp":
		m.SP = -1
	case "struct":
		m.Tamper = append(m.Tamper, Tamper{Op: g.pick(label+".sop", "dropElem", "dupElem", "emptyElem", "dropAttr", "emptyAttr", "dupAttr"), A: g.intn(label+".sidx", 40)})
	case "req-noname":
		// every requested attribute lacks a usable Name (empty, blank): nothing the user has can match it
		blank := g.pick(label+".rnn", "", " ", "\t", "  ")
		if len(m.Requested) == 0 {
			m.Requested = []CustomAttrCfg{{Name: blank, Format: nfBasic}}
		}
		for i := range m.Requested {
			m.Requested[i].Name = blank
		}
	case "subj-unknown":
		m.SubjMode = "unknown"
	case "subj-absent":
		m.SubjMode = "absent"
	case "subj-nonameid":
		m.SubjMode = "no-nameid"
	case "noquery":
		m.Tamper = append(m.Tamper, Tamper{Op: "noquery"})
	case "envelope":
		m.Tamper = append(m.Tamper, Tamper{Op: "envelope", S: g.pick(label+".eop", "dropElem", "dupElem", "emptyElem", "truncate", "bitflip"), A: g.intn(label+".eidx", 200)})
	}
}

// drawSpan: a positive duration from one nanosecond to years.
func (g G) drawSpan(label string) int64 {
	switch g.weighted(label+".k", 20, 20, 30, 20, 10) {
	case 0:
		return []int64{1, 1000, 1000000}[g.intn(label+".tiny", 3)]
	case 1:
		return int64(g.rng(label+".s", 1, 120)) * int64(time.Second)
	case 2:
		return int64(g.rng(label+".m", 1, 600)) * int64(time.Minute)
	case 3:
		return int64(g.rng(label+".d", 1, 400)) * 24 * int64(time.Hour)
	}
	return int64(g.rng(label+".y", 1, 30)) * 365 * 24 * int64(time.Hour)
}

// tamper applies 1..3 hostile in-flight operators (§2.4) to a message.
func (g G) tamper(label string, m *MsgSpec) {
	n := g.weighted(label+".n", 0, 70, 20, 10)
	if n == 0 {
		n = 1
	}
	for i := 0; i < n; i++ {
		lab := fmt.Sprintf("%s.t%d", label, i)
		common := []string{"field-acs", "field-id", "field-dest", "field-proto", "field-acsidx", "issuer", "bitflip", "relay", "b64_flip", "struct", "bogus_sig", "add_sigparams", "wrap", "resign-rogue", "truncate", "insert-tail"}
		var ops []string
		switch m.Binding {
		case "post", "soap":
			ops = append(common, "ref_uri", "ref_uri", "strip_sig", "drop_keyinfo", "foreign_keyinfo", "sigvalue_flip", "digest_flip", "empty_sigvalue", "post_deflate", "wrap", "sigvalue_flip")
			if m.Binding == "post" {
				ops = append(ops, "query_shadow", "query_shadow")
			}
			if m.Binding == "soap" {
				ops = append(ops, "soap_header_wrap", "soap_header_wrap")
			}
		default:
			ops = append(common, "strip_sigparams", "sig_flip", "swap_sigalg", "foreign_sig", "dup_param", "truncate_query", "move-post", "empty-sig", "sig_flip", "dsa_forge", "body-override", "body-override", "blank-sig", "blank-sig", "post-query", "post-query", "sig-without-alg", "sig-without-alg")
		}
		switch op := g.pick(lab+".op", ops...); op {
		case "field-acs":
			m.Tamper = append(m.Tamper, Tamper{Op: "field", A: g.intn(lab+".ua", 4), S: "AssertionConsumerServiceURL=" + g.pick(lab+".u", "https://evil.example/acs", "https://rogue.example/acs", "javascript:alert(1)", "https://sp0.example.evil.example/acs",
				"@acs-upper", "@acs-hostcase", "@acs-lead-space", "@acs-trail-space", "@acs-newline", "@acs-fold", "@acs-slash", "@acs-pct")})
		case "field-id":
			m.Tamper = append(m.Tamper, Tamper{Op: "field", S: "ID=_evil" + g.text(lab+".id", "", false)})
		case "field-dest":
			m.Tamper = append(m.Tamper, Tamper{Op: "field", S: "Destination=https://evil.example/SSO"})
		case "field-proto":
			m.Tamper = append(m.Tamper, Tamper{Op: "field", S: "ProtocolBinding=" + g.pick(lab+".pb", BindPost, BindRedirect, BindArtifact, "urn:evil")})
		case "field-acsidx":
			m.Tamper = append(m.Tamper, Tamper{Op: "field", S: "AssertionConsumerServiceIndex=" + g.pick(lab+".ai", "0", "1", "9", "-1", "x", "01", "+1", "00", "02", " 1", "1.0", "65536", "4294967297", "0x1", "")})
		case "issuer":
			m.Tamper = append(m.Tamper, Tamper{Op: "issuer", S: g.pick(lab+".is", "https://rogue.example/metadata", "https://sp1.example/"+spMarker(1)+"/metadata", "")})
		case "bitflip":
			m.Tamper = append(m.Tamper, Tamper{Op: "bitflip", A: g.intn(lab+".off", 4000), B: g.intn(lab+".bit", 8)})
		case "truncate":
			m.Tamper = append(m.Tamper, Tamper{Op: "truncate", A: g.intn(lab+".off", 4000)})
		case "insert-tail":
			m.Tamper = append(m.Tamper, Tamper{Op: "insert", A: -1, S: g.pick(lab+".tail", "<!-- x -->", "garbage", "<evil/>", "\n")})
		case "relay":
			m.Tamper = append(m.Tamper, Tamper{Op: "relay", S: g.pick(lab+".rs", "https://evil.example/", "evil-relay", "")})
		case "b64_flip":
			m.Tamper = append(m.Tamper, Tamper{Op: "b64_flip", A: g.intn(lab+".idx", 3000)})
		case "struct":
			m.Tamper = append(m.Tamper, Tamper{Op: g.pick(lab+".sop", "dropElem", "dupElem", "emptyElem", "dropAttr", "emptyAttr", "dupAttr"), A: g.intn(lab+".sidx", 60)})
		case "bogus_sig":
			m.Tamper = append(m.Tamper, Tamper{Op: "bogus_sig"})
		case "add_sigparams":
			m.Tamper = append(m.Tamper, Tamper{Op: "add_sigparams"})
		case "wrap":
			m.Tamper = append(m.Tamper, Tamper{Op: "wrap", A: g.intn(lab+".wa", 2), B: g.intn(lab+".wb", 2), S: g.pick(lab+".ws", "", "ProtocolBinding="+BindRedirect, "Destination=https://evil.example/SSO")})
		case "resign-rogue":
			m.Tamper = append(m.Tamper, Tamper{Op: "resign", A: g.pick2(lab+".rk", KeyRogue, KeySPRot, KeyIDPResp0, KeyEnc, KeyEnc), B: g.intn(lab+".rki", 2)})
		case "soap_header_wrap":
			m.Tamper = append(m.Tamper, Tamper{Op: "soap_header_wrap", A: g.intn(lab+".victim", 4)})
			if m.Sign == "" {
				m.Sign = "rsa-sha256"
			}
		case "ref_uri":
			// the Reference of the enveloped signature points somewhere else / nowhere / at something that is not an ID at all
			m.Tamper = append(m.Tamper, Tamper{Op: "ref_uri", S: g.pick(lab+".ru", "#_it's", "#_req[1]", "#", "", "#a b", "#//*", "#']", "#_x\"y", "#[", "_noHash", "#_evil", "#xpointer(/)", "#xpointer(id('_a'))")})
			if m.Sign == "" && m.Binding != "redirect" {
				m.Sign = "rsa-sha256"
			}
		case "strip_sig":
			m.Tamper = append(m.Tamper, Tamper{Op: "strip_sig"})
		case "drop_keyinfo":
			m.Tamper = append(m.Tamper, Tamper{Op: "drop_keyinfo"})
		case "foreign_keyinfo":
			m.Tamper = append(m.Tamper, Tamper{Op: "foreign_keyinfo"})
		case "sigvalue_flip":
			m.Tamper = append(m.Tamper, Tamper{Op: "sigvalue_flip", A: g.intn(lab+".idx", 340)})
		case "digest_flip":
			m.Tamper = append(m.Tamper, Tamper{Op: "digest_flip", A: g.intn(lab+".idx", 40)})
		case "empty_sigvalue":
			m.Tamper = append(m.Tamper, Tamper{Op: "empty_sigvalue"})
		case "post_deflate":
			m.Tamper = append(m.Tamper, Tamper{Op: "post_deflate"})
		case "query_shadow":
			m.Tamper = append(m.Tamper, Tamper{Op: "query_shadow", A: g.intn(lab+".qa", 4), B: g.intn(lab+".qb", 2)})
		case "strip_sigparams":
			m.Tamper = append(m.Tamper, Tamper{Op: "strip_sigparams"})
		case "sig_flip":
			m.Tamper = append(m.Tamper, Tamper{Op: "sig_flip", A: g.intn(lab+".idx", 340)})
		case "swap_sigalg":
			m.Tamper = append(m.Tamper, Tamper{Op: "swap_sigalg", S: g.pick(lab+".alg", "", "", AlgRSASHA512, "http://www.w3.org/2000/09/xmldsig#dsa-sha1", "http://www.w3.org/2009/xmldsig11#dsa-sha256", "none")})
		case "foreign_sig":
			m.Tamper = append(m.Tamper, Tamper{Op: "foreign_sig", A: g.pick2(lab+".fk", KeyRogue, KeySPRot, KeyIDPResp0, KeyEnc)})
		case "dup_param":
			m.Tamper = append(m.Tamper, Tamper{Op: "dup_param", S: g.pick(lab+".dp", "SAMLRequest", "RelayState", "Signature", "SigAlg")})
		case "truncate_query":
			m.Tamper = append(m.Tamper, Tamper{Op: "truncate_query", A: g.intn(lab+".off", 3000)})
		case "dsa_forge":
			m.Tamper = append(m.Tamper, Tamper{Op: "dsa_forge", A: g.intn(lab+".dsa", 2)})
		case "sig-without-alg":
			// a (forged) Signature parameter without any SigAlg
			m.Sign = ""
			m.Tamper = append(m.Tamper, Tamper{Op: "blank_sig", S: "Zm9yZ2VkIHNpZ25hdHVyZSB2YWx1ZQ%3D%3D", A: 0})
		case "post-query":
			m.Method = "POST-query"
		case "move-post":
			m.Method = "POST-move"
		case "body-override":
			m.Method = "POST-override"
		case "empty-sig":
			m.Tamper = append(m.Tamper, Tamper{Op: "empty_param", S: "Signature"})
		case "blank-sig":
			// a Signature parameter that is present but consists of white space only, with or without the SigAlg
			m.Tamper = append(m.Tamper, Tamper{Op: "blank_sig", S: g.pick(lab+".bs", "%20", "+", "%09", "%0D%0A", "%20%20"), A: g.intn(lab+".bsa", 2)})
		}
	}
}

func (g G) pick2(label string, opts ...int) int { return opts[g.intn(label, len(opts))] }

// timeBias gives a front-channel message a validity window and a delivery instant on or next to one of its boundaries.
func (g G) timeBias(label string, m *MsgSpec) {
	m.Style.Frac = g.pick2(label+".frac", 9, 9, 6, 3, 0)
	switch m.Kind {
	case "sso":
		switch g.weighted(label+".w", 40, 30, 30) {
		case 0:
			m.HasNotOnOrAfter, m.NotOnOrAfterNs = true, g.drawSpan(label+".nooa")
			m.DelayAnchor = "notOnOrAfter"
		case 1:
			m.HasNotBefore, m.NotBeforeNs = true, g.drawSpan(label+".nb")
			m.DelayAnchor = "notBefore"
		case 2:
			m.HasNotBefore, m.NotBeforeNs = true, -g.drawSpan(label+".nb")
			m.HasNotOnOrAfter, m.NotOnOrAfterNs = true, g.drawSpan(label+".nooa")
			m.DelayAnchor = g.pick(label+".anch", "notOnOrAfter", "notOnOrAfter", "none")
		}
	case "slo":
		switch g.weighted(label+".w", 40, 40, 20) {
		case 0:
			m.HasNotOnOrAfter, m.NotOnOrAfterNs = true, g.drawSpan(label+".nooa")
			m.DelayAnchor = "notOnOrAfter"
		case 1:
			m.IssueInstantNs = g.drawSpan(label + ".ii")
			m.HasNotOnOrAfter = false
			m.DelayAnchor = "issueInstant"
		case 2:
			m.IssueInstantNs = -g.drawSpan(label + ".ii")
		}
	}
	if m.DelayAnchor == "none" {
		m.DelayAnchor = ""
		m.DelayNs = g.drawSpan(label + ".delay")
		return
	}
	m.DelayNs = []int64{0, 0, 1, -1, 1000, -1000, 1000000, -1000000, int64(time.Second), -int64(time.Second)}[g.intn(label+".delta", 10)]
	if g.chance(label+".far", 15) {
		m.DelayNs = g.drawSpan(label+".farv") * int64(1-2*g.intn(label+".sign", 2))
	}
}
