package sim

// Independent evaluation of what a front-channel / SOAP request submitted to the IdP contains
// (oracle 6: the "necessary conditions" evaluators are built on this). Written from the SAML
// bindings specification and the property statements; it uses none of /repo's decoders.

import (
	"encoding/base64"
	"net/url"
	"strings"
	"time"
)

type SubView struct {
	Binding     string // "redirect" iff the URL query carries a SAMLRequest key, else "post" (statement of C05, anchors)
	FormErr     string // body not readable / not parseable as a form
	Request     string
	HasRequest  bool
	Relay       string
	SigAlg      string
	Sig         string
	Encoding    string
	HasEncoding bool

	DecodeErr  string // why the payload does not decode as one well-formed document
	Lenient    bool   // decodes only when read forgivingly
	LenientWhy string // duplicate-attribute | undeclared-prefix | content-outside-root-element
	XML        []byte
	Root       *Node
}

// formValues mimics what an HTTP form parser yields: body parameters first (only for form-typed POST bodies), then URL parameters.
func formValues(s *Sent, bodyOK bool) (map[string][]string, string) {
	out := map[string][]string{}
	errs := ""
	add := func(q string) {
		vals, err := url.ParseQuery(q)
		if err != nil && errs == "" {
			errs = err.Error()
		}
		for k, v := range vals {
			out[k] = append(out[k], v...)
		}
	}
	ct := strings.ToLower(s.ContentType)
	if (s.Method == "POST" || s.Method == "PUT" || s.Method == "PATCH") && strings.HasPrefix(ct, "application/x-www-form-urlencoded") {
		if !bodyOK {
			return out, "body unreadable"
		}
		add(string(s.Body))
	}
	add(s.RawQuery)
	return out, errs
}

func first(m map[string][]string, k string) (string, bool) {
	v, ok := m[k]
	if !ok || len(v) == 0 {
		return "", ok
	}
	return v[0], true
}

// viewSubmitted decodes a front-channel request the way the bindings specification says a receiver does.
func viewSubmitted(t *Task, rootLocal string) *SubView {
	s := t.Sent
	v := &SubView{Binding: "post"}
	if q, err := url.ParseQuery(s.RawQuery); err == nil || q != nil {
		if _, ok := q["SAMLRequest"]; ok {
			v.Binding = "redirect"
		}
	}
	vals, ferr := formValues(s, !bodyFaultFired(t) || benignBody(t.Msg.BodyFault))
	v.FormErr = ferr
	v.Request, v.HasRequest = first(vals, "SAMLRequest")
	v.Relay, _ = first(vals, "RelayState")
	v.SigAlg, _ = first(vals, "SigAlg")
	v.Sig, _ = first(vals, "Signature")
	v.Encoding, v.HasEncoding = first(vals, "SAMLEncoding")
	if v.Request == "" {
		v.DecodeErr = "empty SAMLRequest"
		return v
	}
	raw, err := base64.StdEncoding.DecodeString(v.Request)
	if err != nil {
		v.DecodeErr = "not base64"
		return v
	}
	enc := v.Encoding
	switch {
	case enc == EncDeflate, enc == "" && v.Binding == "redirect":
		x, err := inflateRaw(raw, 64<<20)
		if err != nil {
			v.DecodeErr = "not DEFLATE: " + err.Error()
			return v
		}
		raw = x
	case enc == "":
	default:
		v.DecodeErr = "unknown SAMLEncoding"
		return v
	}
	v.XML = raw
	decodeProtocolDoc(v, rootLocal)
	return v
}

func decodeProtocolDoc(v *SubView, rootLocal string) {
	root, err := ParseXML(v.XML)
	if err != nil {
		// does it decode when read forgivingly (repeated attributes, undeclared prefixes, content outside the root element)?
		r2, err2 := ParseXMLLenient(v.XML)
		if err2 != nil {
			v.DecodeErr = "not well-formed: " + err.Error()
			return
		}
		root, v.Lenient, v.LenientWhy = r2, true, lenientClass(err.Error())
	}
	if root.NS != NSP || root.Local != rootLocal {
		v.DecodeErr = "root element is not samlp:" + rootLocal
		return
	}
	v.Root = root
}

// lenientClass names why a document is not well-formed although a forgiving reader gets through it.
func lenientClass(e string) string {
	switch {
	case strings.Contains(e, "duplicate"):
		return "duplicate-attribute"
	case strings.Contains(e, "undeclared prefix"):
		return "undeclared-prefix"
	case strings.Contains(e, "outside root"), strings.Contains(e, "more than one root"), strings.Contains(e, "unexpected end element"):
		return "content-outside-root-element"
	}
	return "content-outside-root-element"
}

// rootEnd returns the offset just behind the end tag of the root element, or 0.
func rootEnd(b []byte) int {
	depth := 0
	i := 0
	n := len(b)
	started := false
	for i < n {
		if b[i] != '<' {
			i++
			continue
		}
		switch {
		case strings.HasPrefix(string(b[i:min(i+4, n)]), "<!--"):
			j := strings.Index(string(b[i:]), "-->")
			if j < 0 {
				return 0
			}
			i += j + 3
		case strings.HasPrefix(string(b[i:min(i+2, n)]), "<?"):
			j := strings.Index(string(b[i:]), "?>")
			if j < 0 {
				return 0
			}
			i += j + 2
		case strings.HasPrefix(string(b[i:min(i+9, n)]), "<![CDATA["):
			j := strings.Index(string(b[i:]), "]]>")
			if j < 0 {
				return 0
			}
			i += j + 3
		case strings.HasPrefix(string(b[i:min(i+2, n)]), "<!"):
			j := strings.IndexByte(string(b[i:]), '>')
			if j < 0 {
				return 0
			}
			i += j + 1
		default:
			// a tag: find its end outside quotes
			j := i + 1
			quote := byte(0)
			for j < n {
				c := b[j]
				if quote != 0 {
					if c == quote {
						quote = 0
					}
				} else if c == '"' || c == '\'' {
					quote = c
				} else if c == '>' {
					break
				}
				j++
			}
			if j >= n {
				return 0
			}
			closing := b[i+1] == '/'
			selfClose := b[j-1] == '/'
			if closing {
				depth--
			} else if !selfClose {
				depth++
				started = true
			} else {
				started = true
			}
			i = j + 1
			if started && depth == 0 {
				return i
			}
		}
	}
	return 0
}

// parseXSDateTime parses the xs:dateTime lexical forms a conformant peer may write.
// parseTimeCommaLenient: Go's time.Parse (1.17+) also takes a comma as the decimal separator of the seconds, which ISO 8601
// allows and xs:dateTime does not. Such a value is reported under its own finding class and then evaluated as if it had a dot,
// so that the other window rules keep their meaning.
func parseTimeCommaLenient(s string) (time.Time, bool) {
	if strings.Count(s, ",") != 1 {
		return time.Time{}, false
	}
	return parseXSDateTime(strings.Replace(s, ",", ".", 1))
}

func parseXSDateTime(s string) (time.Time, bool) {
	for _, l := range []string{"2006-01-02T15:04:05.999999999Z07:00", "2006-01-02T15:04:05Z07:00", "2006-01-02T15:04:05.999999999", "2006-01-02T15:04:05"} {
		if t, err := time.Parse(l, s); err == nil {
			if strings.Contains(s, ",") {
				return time.Time{}, false
			}
			return t, true
		}
	}
	return time.Time{}, false
}
