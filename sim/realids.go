package sim

import (
	"fmt"
	"sync"

	"github.com/google/uuid"

	"github.com/zitadel/saml/pkg/provider"
)

// realIDStage draws `total` message IDs from `workers` goroutines with the library's real randomness source.
func realIDStage(total, workers int) (n, dups, illegal, panics int, sample []string, panicSample string) {
	uuid.SetRand(nil)
	per := total / workers
	outs := make([][]string, workers)
	pan := make([]string, workers)
	var wg sync.WaitGroup
	for i := 0; i < workers; i++ {
		wg.Add(1)
		go func(i int) {
			defer wg.Done()
			ids := make([]string, 0, per)
			defer func() { outs[i] = ids }()
			for k := 0; k < per; k++ {
				func() {
					defer func() {
						if r := recover(); r != nil && pan[i] == "" {
							pan[i] = fmt.Sprint(r)
						}
					}()
					ids = append(ids, provider.NewID())
				}()
				if pan[i] != "" {
					return
				}
			}
		}(i)
	}
	wg.Wait()
	seen := make(map[string]struct{}, total)
	for i, ids := range outs {
		if pan[i] != "" {
			panics++
			panicSample = pan[i]
		}
		for _, id := range ids {
			n++
			if _, ok := seen[id]; ok {
				dups++
			}
			seen[id] = struct{}{}
			if !isNCName(id) {
				illegal++
			}
		}
	}
	if len(outs) > 0 && len(outs[0]) > 2 {
		sample = outs[0][:3]
	}
	return
}
