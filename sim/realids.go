package sim

import (
	"sync"

	"github.com/google/uuid"

	"github.com/zitadel/saml/pkg/provider"
)

func realIDStage(total, workers int) (n, dups, illegal int, sample []string) {
	uuid.SetRand(nil)
	per := total / workers
	outs := make([][]string, workers)
	var wg sync.WaitGroup
	for i := 0; i < workers; i++ {
		wg.Add(1)
		go func(i int) {
			defer wg.Done()
			ids := make([]string, 0, per)
			for k := 0; k < per; k++ {
				ids = append(ids, provider.NewID())
			}
			outs[i] = ids
		}(i)
	}
	wg.Wait()
	seen := make(map[string]struct{}, total)
	for _, ids := range outs {
		for _, id := range ids {
			n++
			if _, ok := seen[id]; ok {
				dups++
			}
			seen[id] = struct{}{}
			if !isNCName(id) {
				illegal++
			}
		}
	}
	if len(outs) > 0 && len(outs[0]) > 2 {
		sample = outs[0][:3]
	}
	return
}
