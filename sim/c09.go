package sim

// C09 — no input crashes a handler or the SP-registration API. Corruption is the fault: structural single edits (swept
// completely per base message), sampled pairs, byte-level damage, torn bodies, corrupted stored SP metadata, storage faults.

import (
	"fmt"
	"strings"
	"testing"
)

// inputClass names what was unusual about the request that crashed (for finding keys).
func inputClass(t *Task) string {
	m := t.Msg
	var c []string
	if m.IssuerMode != "" && m.IssuerMode != "own" {
		c = append(c, "issuer-"+m.IssuerMode)
	}
	if m.SubjMode != "" && m.SubjMode != "user" {
		c = append(c, "subject-"+m.SubjMode)
	}
	if m.NoNameID {
		c = append(c, "no-nameid")
	}
	for _, tp := range m.Tamper {
		c = append(c, tp.Op)
	}
	if m.Kind == "raw" {
		c = append(c, "raw")
	}
	if len(storageFaults(t)) > 0 {
		c = append(c, "storage-fault")
	}
	if len(c) == 0 {
		return "plain"
	}
	if len(c) > 2 {
		c = c[:2]
	}
	return strings.Join(c, "+")
}

func oracleC09(r *Result) {
	w := r.World
	for _, t := range r.Tasks {
		if t.Abandoned {
			continue
		}
		w.probe("handler_ran")
		if t.Panic == "" {
			continue
		}
		ep := t.Msg.Kind
		if ep == "raw" {
			ep = "raw" + strings.ReplaceAll(t.Msg.RawPath, "/", "-")
		}
		r.violate("C09 handler-panic", "C09:"+ep+":panic:"+t.PanicFunc,
			"processing ends with a regular HTTP response", fmt.Sprintf("panic: %s (input: %s)\n%s", t.Panic, inputClass(t), abbreviate(t.PanicStack, 1800)), t.ID)
	}
}

func (g G) drawCorrupt(label string) *Corrupt {
	switch g.weighted(label+".k", 45, 15, 15, 10, 15) {
	case 0:
		return &Corrupt{Kind: g.pick(label+".op", "dropElem", "dupElem", "emptyElem", "dropAttr", "emptyAttr", "dupAttr"), A: g.intn(label+".i", 60)}
	case 1:
		return &Corrupt{Kind: "truncate", A: g.intn(label+".off", 4000)}
	case 2:
		return &Corrupt{Kind: "bitflip", A: g.intn(label+".off", 4000), B: g.intn(label+".bit", 8)}
	case 3:
		return &Corrupt{Kind: "replace", S: g.pick(label+".doc", "", "<", "<md:EntityDescriptor xmlns:md=\""+NSMD+"\"/>", "<EntityDescriptor/>", "<md:EntityDescriptor xmlns:md=\""+NSMD+"\" entityID=\"x\"><md:SPSSODescriptor/></md:EntityDescriptor>",
			"<md:EntityDescriptor xmlns:md=\""+NSMD+"\" entityID=\"x\"><md:IDPSSODescriptor/></md:EntityDescriptor>", "\xff\xfe", "<?xml version=\"1.0\"?>")}
	}
	return &Corrupt{Kind: "cert", S: g.pick(label+".cert", "", " \n ", "\n\t\n", "-----BEGIN CERTIFICATE-----\n-----END CERTIFICATE-----", "-----BEGIN CERTIFICATE----- -----END CERTIFICATE-----", "-----BEGIN CERTIFICATE-----END CERTIFICATE-----", "-----BEGIN CERTIFICATE----END CERTIFICATE-----", "-----BEGIN CERTIFICATE-END CERTIFICATE-----",
		"-----BEGIN CERTIFICATE-----", "-----END CERTIFICATE-----", "-----END CERTIFICATE----------BEGIN CERTIFICATE-----", "-----", "AAAA", "not base64!", ecCertB64, "MIIB", Keys[0].CertB64[:200], "-----BEGIN CERTIFICATE-----\n"+Keys[0].CertB64+"\n-----END CERTIFICATE-----")}
}

// ecCertB64 is a syntactically valid X.509 certificate with an ECDSA P-256 key (non-RSA key type).
const ecCertB64 = "MIIBGDCBv6ADAgECAgEHMAoGCCqGSM49BAMCMBUxEzARBgNVBAMTCmVjLnNwLnRlc3QwIBcNOTAwMTAxMDAwMDAwWhgPMjEwMDAxMDEwMDAwMDBaMBUxEzARBgNVBAMTCmVjLnNwLnRlc3QwWTATBgcqhkjOPQIBBggqhkjOPQMBBwNCAAT0QYQpfhr2cVqwSkZpCNEHqJieKjje+yZY+ZnFvoWZ8zIoSt7ALFVkDhDclLlXzWwpReDrR4XhJ6iwj6v/i5bbMAoGCCqGSM49BAMCA0gAMEUCIHf9BB6BGAJTl4yolmnCsZeSaG5qCcd+k2qr0qD4RzOhAiEArlMkh+4GrgwSDVuiw/3MtMlHHqMdhNewFx6W7IGrX1w="

func (g G) planC09() *Plan {
	o := &mixOpts{family: "corruption",
		world: worldOpts{maxSPs: 3, maxUsers: 2, maxReplicas: 2, hardPct: 20, hardURLPct: 20, acsVariety: true, sloVariety: true, signReqVariety: true, parkVariety: true, noCertPct: 20,
			issuerVariety: true, endpointVariety: true, metaVariety: true, customAttrs: true},
		wSSO: 25, wSLO: 18, wAttrQ: 22, wCallback: 8, wMeta: 4, wCert: 2, wReady: 2, wHealthz: 1, wRaw: 12,
		wResume: 25, wFinish: 12, wComplete: 3, wRereg: 2, wDelSP: 1, wRotate: 1, wUnhealthy: 1, wCancel: 4, wAdvance: 2, deadlinePct: 6,
		devPct: 60, tamperPct: 55, timePct: 5, faultPcts: []int{0, 10, 30}, bodyFaultPct: 12, writeFaultPct: 5, rogueSPPct: 8, hostVariety: true, oddHostPct: 10,
		minSteps: 3, maxSteps: 30, maxPre: 2, hardPre: true, preBindings: []string{BindPost, BindRedirect, BindArtifact, "", "urn:x"}, autoFinishPct: 50}
	p := g.planMix("C09", o)
	// the response signing certificate is outside its validity (the 2001-only fixture), or its validity ends during the run
	p.World.IDP.ExpiredRespCert = g.chance("expiredRespCert", 15)
	g.aimAtCertExpiry(p, 5)
	// stored SP metadata corrupted before registration
	for i := range p.World.SPs {
		if g.chance(fmt.Sprintf("corrupt%d", i), 35) {
			p.World.SPs[i].Corrupt = g.drawCorrupt(fmt.Sprintf("corrupt%d.c", i))
		}
	}
	if g.chance("badalg", 10) {
		p.World.IDP.SigAlg = g.pick("badalgv", "", "http://www.w3.org/2000/09/xmldsig#dsa-sha1", AlgRSASHA512, "x")
	}
	return p
}

// enumerateC09: the complete single-edit sweep over every base message and over SP metadata.
func enumerateC09(t *testing.T, c *collector, workers int) bool {
	type base struct {
		name string
		msg  func() *MsgSpec
	}
	bases := []base{
		{"sso-redirect", func() *MsgSpec {
			return &MsgSpec{Kind: "sso", SP: 0, Binding: "redirect", ID: "_b1", HasRelay: true, RelayState: "rs", HasNotBefore: true, NotBeforeNs: -1e9, HasNotOnOrAfter: true, NotOnOrAfterNs: 6e10, ProtoBind: BindPost,
				Style: Style{Optional: 1<<11 - 1}}
		}},
		{"sso-post-signed", func() *MsgSpec {
			return &MsgSpec{Kind: "sso", SP: 1, Binding: "post", Sign: "rsa-sha256", ID: "_b2", Style: Style{KeyInfo: true, Optional: optNameIDPolicy | optReqAuthnCtx}}
		}},
		{"sso-redirect-signed", func() *MsgSpec {
			return &MsgSpec{Kind: "sso", SP: 1, Binding: "redirect", Sign: "rsa-sha1", ID: "_b3", HasRelay: true, RelayState: "rs"}
		}},
		{"slo-post", func() *MsgSpec {
			return &MsgSpec{Kind: "slo", SP: 0, Binding: "post", ID: "_b4", HasRelay: true, RelayState: "lrs", NameID: "x@example.org", SessionIndex: []string{"_s1"}, HasNotOnOrAfter: true, NotOnOrAfterNs: 6e10}
		}},
		{"slo-redirect", func() *MsgSpec {
			return &MsgSpec{Kind: "slo", SP: 0, Binding: "redirect", ID: "_b5", NameID: "x@example.org"}
		}},
		{"attrq", func() *MsgSpec {
			return &MsgSpec{Kind: "attrq", SP: 0, Binding: "soap", ID: "_b6", User: 0, Requested: []CustomAttrCfg{{Name: "Email", Format: nfBasic}}}
		}},
		{"attrq-signed", func() *MsgSpec {
			return &MsgSpec{Kind: "attrq", SP: 0, Binding: "soap", ID: "_b7", User: 0, Sign: "rsa-sha256", Style: Style{KeyInfo: true}}
		}},
	}
	ops := []string{"dropElem", "dupElem", "emptyElem", "dropAttr", "emptyAttr", "dupAttr"}
	run := func(p *Plan) bool {
		res := Run(t, p)
		if res.HarnessErr != "" {
			c.out.HarnessErr = res.HarnessErr
			return true
		}
		c.add(res)
		c.out.Enumerated++
		if v := c.triage(res, true); v != nil {
			c.report(t, p, *v, len(p.Steps))
			return true
		}
		return false
	}
	mk := func(m *MsgSpec) *Plan {
		p := &Plan{Format: 1, Property: "C09", Mode: "serial", Family: "single-edit-sweep", Seed: *fSeed, Worker: *fWorker}
		p.World = c10BaseWorld(0)
		p.Steps = []Step{{K: "send", Msg: m}, {K: "finish", Pick: 0}}
		return p
	}
	scen := 0
	for bi := range bases {
		b := &bases[bi]
		// learn the size of the sweep from the message as sent
		probeRes := Run(t, mk(b.msg()))
		if probeRes.HarnessErr != "" || len(probeRes.Tasks) == 0 {
			c.out.HarnessErr = "C09 sweep: cannot build base message " + b.name + ": " + probeRes.HarnessErr
			return true
		}
		ne, na := editCounts(probeRes.Tasks[0].Sent.XML)
		envE, envA := 0, 0
		if strings.HasPrefix(b.name, "attrq") {
			envE, envA = editCounts(string(probeRes.Tasks[0].Sent.Body))
		}
		for _, op := range ops {
			n := ne
			if strings.HasSuffix(op, "Attr") {
				n = na
			}
			for i := 0; i < n; i++ {
				scen++
				if workers > 0 && scen%workers != *fWorker%workers {
					continue
				}
				m := b.msg()
				m.Tamper = []Tamper{{Op: op, A: i}}
				if run(mk(m)) {
					return true
				}
			}
			// SOAP envelope level
			n = envE
			if strings.HasSuffix(op, "Attr") {
				n = envA
			}
			for i := 0; i < n; i++ {
				scen++
				if workers > 0 && scen%workers != *fWorker%workers {
					continue
				}
				m := b.msg()
				m.Tamper = []Tamper{{Op: "envelope", S: op, A: i}}
				if run(mk(m)) {
					return true
				}
			}
		}
	}
	// thorough tier: every ordered pair of single edits of every base message (the second edit indexes the document as it is
	// after the first)
	if *fTier == "thorough" {
		for bi := range bases {
			b := &bases[bi]
			probeRes := Run(t, mk(b.msg()))
			if probeRes.HarnessErr != "" || len(probeRes.Tasks) == 0 {
				continue
			}
			ne, na := editCounts(probeRes.Tasks[0].Sent.XML)
			type ed struct {
				op string
				i  int
			}
			var eds []ed
			for _, op := range ops {
				n := ne
				if strings.HasSuffix(op, "Attr") {
					n = na
				}
				for i := 0; i < n; i++ {
					eds = append(eds, ed{op, i})
				}
			}
			for _, e1 := range eds {
				for _, e2 := range eds {
					scen++
					if workers > 0 && scen%workers != *fWorker%workers {
						continue
					}
					m := b.msg()
					m.Tamper = []Tamper{{Op: e1.op, A: e1.i}, {Op: e2.op, A: e2.i}}
					if run(mk(m)) {
						return true
					}
					c.out.Pairs++
				}
			}
		}
	}
	// SP metadata
	w0 := c10BaseWorld(0)
	for si := range w0.SPs {
		ne, na := editCounts(BuildSPMetadata(&w0.SPs[si]))
		for _, op := range ops {
			n := ne
			if strings.HasSuffix(op, "Attr") {
				n = na
			}
			for i := 0; i < n; i++ {
				scen++
				if workers > 0 && scen%workers != *fWorker%workers {
					continue
				}
				p := mk(&MsgSpec{Kind: "sso", SP: si, Binding: "redirect", ID: "_b8"})
				p.World.SPs[si].Corrupt = &Corrupt{Kind: op, A: i}
				if run(p) {
					return true
				}
			}
		}
	}
	c.out.Exhaustive = true
	return false
}
