package sim

// DOM serialisation and the structural / byte-level edit operators used by
// the network attacker and by the corruption faults.

import (
	"strings"
)

func serialize(n *Node) string {
	var sb strings.Builder
	serializeRec(&sb, n)
	return sb.String()
}

func serializeRec(sb *strings.Builder, n *Node) {
	if n.IsText {
		escText(sb, n.Text)
		return
	}
	qn := n.Local
	if n.Prefix != "" {
		qn = n.Prefix + ":" + n.Local
	}
	sb.WriteByte('<')
	sb.WriteString(qn)
	for _, d := range n.NSDecls {
		if d.Prefix == "" {
			sb.WriteString(` xmlns="`)
		} else {
			sb.WriteString(" xmlns:" + d.Prefix + `="`)
		}
		escAttr(sb, d.URI)
		sb.WriteByte('"')
	}
	for _, a := range n.Attrs {
		sb.WriteByte(' ')
		if a.Prefix != "" {
			sb.WriteString(a.Prefix + ":")
		}
		sb.WriteString(a.Local + `="`)
		escAttr(sb, a.Value)
		sb.WriteByte('"')
	}
	if len(n.Children) == 0 {
		sb.WriteString("/>")
		return
	}
	sb.WriteByte('>')
	for _, c := range n.Children {
		serializeRec(sb, c)
	}
	sb.WriteString("</" + qn + ">")
}

// cloneNode deep-copies a subtree (parent pointers fixed up; the clone's Parent is nil).
func cloneNode(n *Node) *Node {
	c := *n
	c.Parent = nil
	c.Attrs = append([]XAttr(nil), n.Attrs...)
	c.NSDecls = append([]NSDecl(nil), n.NSDecls...)
	c.Children = nil
	for _, ch := range n.Children {
		cc := cloneNode(ch)
		cc.Parent = &c
		c.Children = append(c.Children, cc)
	}
	return &c
}

func allElems(root *Node) []*Node {
	var out []*Node
	root.Walk(func(e *Node) { out = append(out, e) })
	return out
}

type attrRef struct {
	el *Node
	i  int
}

func allAttrs(root *Node) []attrRef {
	var out []attrRef
	root.Walk(func(e *Node) {
		for i := range e.Attrs {
			out = append(out, attrRef{e, i})
		}
	})
	return out
}

func removeChild(p, c *Node) {
	for i, x := range p.Children {
		if x == c {
			p.Children = append(p.Children[:i:i], p.Children[i+1:]...)
			return
		}
	}
}

// editCounts returns how many elements and attributes a document has (the size of the single-edit sweep).
func editCounts(xmlText string) (elems, attrs int) {
	root, err := ParseXML([]byte(xmlText))
	if err != nil {
		return 0, 0
	}
	return len(allElems(root)), len(allAttrs(root))
}

// structEdit applies one structural edit; returns the new text and whether it applied.
// A duplicated attribute cannot be represented in the DOM serialiser, so it is done textually.
func structEdit(xmlText string, op string, idx int) (string, bool) {
	root, err := ParseXML([]byte(xmlText))
	if err != nil {
		return xmlText, false
	}
	decl := ""
	if strings.HasPrefix(xmlText, "<?xml") {
		if i := strings.Index(xmlText, "?>"); i > 0 {
			decl = xmlText[:i+2]
		}
	}
	switch op {
	case "dropElem", "dupElem", "emptyElem":
		es := allElems(root)
		if len(es) == 0 {
			return xmlText, false
		}
		e := es[mod(idx, len(es))]
		switch op {
		case "dropElem":
			if e.Parent == nil {
				return decl, true // dropping the root leaves an empty document
			}
			removeChild(e.Parent, e)
		case "dupElem":
			if e.Parent == nil {
				return decl + serialize(root) + serialize(root), true
			}
			c := cloneNode(e)
			c.Parent = e.Parent
			for i, x := range e.Parent.Children {
				if x == e {
					rest := append([]*Node{c}, e.Parent.Children[i+1:]...)
					e.Parent.Children = append(e.Parent.Children[:i+1:i+1], rest...)
					break
				}
			}
		case "emptyElem":
			e.Children = nil
		}
	case "dropAttr", "emptyAttr", "dupAttr":
		as := allAttrs(root)
		if len(as) == 0 {
			return xmlText, false
		}
		a := as[mod(idx, len(as))]
		switch op {
		case "dropAttr":
			a.el.Attrs = append(a.el.Attrs[:a.i:a.i], a.el.Attrs[a.i+1:]...)
		case "emptyAttr":
			a.el.Attrs[a.i].Value = ""
		case "dupAttr":
			// mark, serialise, then duplicate textually
			name := a.el.Attrs[a.i].Local
			if a.el.Attrs[a.i].Prefix != "" {
				name = a.el.Attrs[a.i].Prefix + ":" + name
			}
			val := a.el.Attrs[a.i].Value
			a.el.Attrs[a.i].Value = "@@DUP@@"
			s := serialize(root)
			var sb strings.Builder
			escAttr(&sb, val)
			one := name + `="` + sb.String() + `"`
			s = strings.Replace(s, name+`="@@DUP@@"`, one+" "+one, 1)
			return decl + s, true
		}
	default:
		return xmlText, false
	}
	return decl + serialize(root), true
}

// applyCorrupt applies a byte- or structure-level corruption to a document.
func applyCorrupt(doc []byte, c *Corrupt) []byte {
	if c == nil {
		return doc
	}
	switch c.Kind {
	case "truncate":
		if len(doc) == 0 {
			return doc
		}
		return append([]byte(nil), doc[:mod(c.A, len(doc))]...)
	case "bitflip":
		if len(doc) == 0 {
			return doc
		}
		out := append([]byte(nil), doc...)
		out[mod(c.A, len(out))] ^= 1 << uint(mod(c.B, 8))
		return out
	case "insert":
		i := 0
		if len(doc) > 0 {
			i = mod(c.A, len(doc)+1)
		}
		if c.A < 0 {
			i = len(doc) // behind the document
		}
		out := append([]byte(nil), doc[:i]...)
		out = append(out, c.S...)
		return append(out, doc[i:]...)
	case "replace":
		return []byte(c.S)
	case "dropElem", "dupElem", "emptyElem", "dropAttr", "emptyAttr", "dupAttr":
		s, _ := structEdit(string(doc), c.Kind, c.A)
		return []byte(s)
	case "cert":
		// replace every X509Certificate text by S (garbled / non-RSA certificates)
		root, err := ParseXML(doc)
		if err != nil {
			return doc
		}
		for _, x := range root.FindAll(NSDS, "X509Certificate") {
			x.Children = []*Node{{IsText: true, Text: c.S, Parent: x}}
		}
		return []byte(serialize(root))
	}
	return doc
}

func corruptClass(c *Corrupt) string {
	if c == nil {
		return "wellformed"
	}
	return c.Kind
}
