package sim

// C03 — assertion content is bound to the originating request, audience and user.
// C04 — every signature the IdP emits verifies under a conformant verifier.

import (
	"fmt"
	"sort"
	"strings"
	"time"
)

const nfBasic = "urn:oasis:names:tc:SAML:2.0:attrname-format:basic"

// expectedAttrs: the attribute statement a user record maps to (documented mapping; custom attributes keyed by name, last one wins).
func expectedAttrs(u *UserCfg) []string {
	var out []string
	add := func(name, nf, fr string, vals []string) {
		out = append(out, fmt.Sprintf("%s|%s|%s|%q", name, nf, fr, vals))
	}
	if u.Email != "" {
		add("Email", nfBasic, "", []string{u.Email})
	}
	if u.Surname != "" {
		add("SurName", nfBasic, "", []string{u.Surname})
	}
	if u.GivenName != "" {
		add("FirstName", nfBasic, "", []string{u.GivenName})
	}
	if u.FullName != "" {
		add("FullName", nfBasic, "", []string{u.FullName})
	}
	if u.Username != "" {
		add("UserName", nfBasic, "", []string{u.Username})
	}
	if u.UID != "" {
		add("UserID", nfBasic, "", []string{u.UID})
	}
	last := map[string]int{}
	for i, c := range u.Custom {
		last[c.Name] = i
	}
	for i, c := range u.Custom {
		if last[c.Name] == i {
			add(c.Name, c.Format, c.Friendly, c.Values)
		}
	}
	sort.Strings(out)
	return out
}

func attrsOf(a *AssertionView) []string {
	var out []string
	for _, at := range a.Attrs {
		out = append(out, fmt.Sprintf("%s|%s|%s|%q", at.Name, at.NameFormat, at.FriendlyName, at.Values))
	}
	sort.Strings(out)
	return out
}

func timePrecision(tf string) time.Duration {
	switch tf {
	case "2006-01-02T15:04:05Z":
		return time.Second
	case "2006-01-02T15:04:05.000Z":
		return time.Millisecond
	case "2006-01-02T15:04:05.999999999Z":
		return time.Nanosecond
	}
	return time.Microsecond
}

// strClass names what makes a string hard (for finding keys).
func strClass(s string) string {
	var c []string
	if strings.ContainsAny(s, "\r") {
		c = append(c, "cr")
	}
	if strings.ContainsAny(s, "\n") {
		c = append(c, "lf")
	}
	if strings.ContainsAny(s, "\t") {
		c = append(c, "tab")
	}
	if strings.ContainsAny(s, "&<>\"'") {
		c = append(c, "meta")
	}
	if s != strings.TrimSpace(s) {
		c = append(c, "edge-space")
	}
	for _, r := range s {
		if r > 127 {
			c = append(c, "non-ascii")
			break
		}
	}
	if len(c) == 0 {
		return "plain"
	}
	return strings.Join(c, "+")
}

func deliveryClass(rep *Reply) string {
	switch rep.Kind {
	case RKForm:
		return "post"
	case RKRedirectSAML:
		return "redirect"
	case RKXML:
		return "body"
	case RKSOAP:
		return "soap"
	}
	return rep.Kind
}

// seenIDs collects every produced message id of a run (response, assertion, logout response, metadata ids).
func producedIDs(r *Result) map[string][]int {
	ids := map[string][]int{}
	for _, t := range r.Tasks {
		if t.Reply == nil || t.Abandoned {
			continue
		}
		add := func(id string) {
			if id != "" {
				ids[id] = append(ids[id], t.ID)
			}
		}
		if m := t.Reply.Msg; m != nil {
			add(m.ID)
			for _, a := range m.Assertions {
				add(a.ID)
			}
		}
		if t.Reply.Kind == RKMetadata && t.Reply.Doc != nil {
			t.Reply.Doc.Walk(func(n *Node) {
				if !n.IsText {
					if v, ok := n.AttrOK("ID"); ok {
						add(v)
					}
				}
			})
		}
	}
	return ids
}

func oracleC03(r *Result) {
	w := r.World
	ids := producedIDs(r)
	for _, t := range r.Tasks {
		if t.Msg.Kind != "callback" || t.Abandoned || t.Reply == nil || t.Panic != "" || writerFaultFired(t) {
			continue
		}
		rep := t.Reply
		if !rep.IsSuccess() {
			continue
		}
		ac := firstCall(t, "AuthRequestByID")
		uc := firstCall(t, "SetUserinfoWithUserID")
		ec := firstCall(t, "GetEntityIDByAppID")
		if uc != nil && uc.Err != "" && uc.Fault != "abandoned" {
			r.violate("C03 success-without-user-record", "C03:callback:success-although-user-lookup-failed:"+deliveryClass(rep),
				"a Success response carries exactly the data of the user storage resolved", "SetUserinfoWithUserID failed ("+uc.Fault+"), reply: "+replySummary(t), t.ID)
			continue
		}
		if ec != nil && ec.Err != "" && ec.Fault != "abandoned" {
			r.violate("C03 success-without-audience-record", "C03:callback:success-although-entity-lookup-failed:"+deliveryClass(rep),
				"a Success response names as Audience the entity ID registered for the request's application", "GetEntityIDByAppID failed ("+ec.Fault+"), reply: "+replySummary(t), t.ID)
			continue
		}
		if ac == nil || ac.Snap == nil || uc == nil || uc.UserIdx < 0 {
			continue // C01's business
		}
		wantAud := ""
		switch {
		case ec != nil:
			wantAud = ec.Ret
		case t.HasStableAudience:
			// the library did not ask the storage (it answered from a memory of its own): the registration did not change during
			// the whole request, so the Audience is still determined
			wantAud = t.StableAudience
			w.probe("audience_checked_without_lookup")
		default:
			continue
		}
		w.probe("success_assertion_checked")
		S := ac.Snap
		U := &w.cfg.Users[uc.UserIdx]
		how := deliveryClass(rep)
		bad := func(field, class, expected, observed string) {
			k := "C03:callback:" + field + ":" + how
			if class != "" {
				k += ":" + class
			}
			r.violate("C03 "+field, k, expected, observed, t.ID)
		}
		m := rep.Msg
		if len(m.Assertions) != 1 {
			bad("assertion-count", "", "exactly one assertion", fmt.Sprint(len(m.Assertions)))
			continue
		}
		a := m.Assertions[0]
		if m.InResponseTo != S.AuthRequestID || a.SCDInResponseTo != S.AuthRequestID {
			bad("inresponseto", strClass(S.AuthRequestID), fmt.Sprintf("InResponseTo = %q on response and subject confirmation", S.AuthRequestID), fmt.Sprintf("response %q, subject confirmation %q", m.InResponseTo, a.SCDInResponseTo))
		}
		if m.Destination != S.ACS || a.SCDRecipient != S.ACS {
			bad("destination", strClass(S.ACS), fmt.Sprintf("Destination = Recipient = %q", S.ACS), fmt.Sprintf("Destination %q, Recipient %q", m.Destination, a.SCDRecipient))
		}
		if m.Issuer != t.Sent.EntityID || a.Issuer != t.Sent.EntityID {
			bad("issuer", "", fmt.Sprintf("Issuer = %q", t.Sent.EntityID), fmt.Sprintf("response %q, assertion %q", m.Issuer, a.Issuer))
		}
		if len(a.Audiences) != 1 || a.Audiences[0] != wantAud {
			bad("audience", strClass(wantAud), fmt.Sprintf("Audience = [%q]", wantAud), fmt.Sprintf("%q", a.Audiences))
		}
		if !a.HasNameID || a.NameID != U.Username {
			bad("nameid", strClass(U.Username), fmt.Sprintf("NameID = %q", U.Username), fmt.Sprintf("%q (present=%v)", a.NameID, a.HasNameID))
		}
		want, got := expectedAttrs(U), attrsOf(a)
		if strings.Join(want, "\x00") != strings.Join(got, "\x00") {
			bad("attributes", "", fmt.Sprintf("%v", want), fmt.Sprintf("%v", got))
		}
		if how == "post" || how == "redirect" {
			if rep.RelayState != S.RelayState || rep.NRelay > 1 {
				cls := strClass(S.RelayState)
				if how == "post" && strings.ReplaceAll(strings.ReplaceAll(S.RelayState, "\r\n", "\n"), "\r", "\n") == rep.RelayState {
					cls = "cr-normalised-by-html-parser"
				}
				bad("relaystate", cls, fmt.Sprintf("RelayState %q delivered byte for byte", S.RelayState), fmt.Sprintf("%q (%d fields)", rep.RelayState, rep.NRelay))
			}
		}
		// validity window
		ii, ok1 := parseXSDateTime(a.IssueInstant)
		nb, ok2 := parseXSDateTime(a.NotBefore)
		na, ok3 := parseXSDateTime(a.NotOnOrAfter)
		if !ok1 || !ok2 || !ok3 {
			bad("window-unparseable", "", "xs:dateTime values", fmt.Sprintf("IssueInstant %q NotBefore %q NotOnOrAfter %q", a.IssueInstant, a.NotBefore, a.NotOnOrAfter))
		} else {
			p := timePrecision(w.cfg.IDP.TimeFormat)
			if !nb.Equal(ii) {
				bad("notbefore", "", "NotBefore = IssueInstant", fmt.Sprintf("IssueInstant %s NotBefore %s", a.IssueInstant, a.NotBefore))
			}
			if na.Sub(ii) != 5*time.Minute {
				bad("lifetime", "", "NotOnOrAfter = IssueInstant + 5m (the configured lifetime)", fmt.Sprintf("IssueInstant %s NotOnOrAfter %s", a.IssueInstant, a.NotOnOrAfter))
			}
			if !(ii.After(t.TInvoke.Add(-p)) && !ii.After(t.TReturn)) {
				bad("issueinstant", "", fmt.Sprintf("%s - %s < IssueInstant <= %s", t.TInvoke.UTC().Format(time.RFC3339Nano), p, t.TReturn.UTC().Format(time.RFC3339Nano)), a.IssueInstant)
			}
			if t.TInvoke.Equal(t.TReturn) {
				w.probe("issueinstant_checked_at_exact_instant")
			}
			// "IssueInstant <= now < NotOnOrAfter" with now = the instant the response is issued, i.e. starts to leave the IdP: a
			// response stamped before a slow storage call (or before the clock moved) may already be expired when it is handed over
			if !t.TWrite.IsZero() {
				if !ii.After(t.TWrite) && !t.TWrite.Before(na) {
					bad("expired-when-issued", "", fmt.Sprintf("now (%s, when the reply was written) < NotOnOrAfter", t.TWrite.UTC().Format(time.RFC3339Nano)), fmt.Sprintf("IssueInstant %s NotOnOrAfter %s", a.IssueInstant, a.NotOnOrAfter))
				}
				if t.TWrite.After(t.TInvoke) {
					w.probe("window_checked_after_clock_moved_during_request")
				}
			}
		}
		// ids
		if m.ID == "" || a.ID == "" || m.ID == a.ID || !isNCName(m.ID) || !isNCName(a.ID) {
			bad("ids", "", "distinct, non-empty xs:ID values", fmt.Sprintf("response %q assertion %q", m.ID, a.ID))
		}
		for _, id := range []string{m.ID, a.ID} {
			if len(ids[id]) > 1 && m.ID != a.ID {
				bad("ids-not-fresh", "", "an id never produced before in this run", fmt.Sprintf("%q produced by tasks %v", id, ids[id]))
			}
		}
	}
}

// ---------------------------------------------------------------------------
// C04

// needsC14NEscape: does the element carry a character the canonical form must escape (text: & < > CR; attribute: & < " TAB LF CR)?
func needsC14NEscape(n *Node) bool {
	found := false
	var rec func(x *Node, inSig bool)
	rec = func(x *Node, inSig bool) {
		if x.IsText {
			if !inSig && strings.ContainsAny(x.Text, "&<>\r") {
				found = true
			}
			return
		}
		if x.Is(NSDS, "Signature") {
			inSig = true
		}
		if !inSig {
			for _, a := range x.Attrs {
				if strings.ContainsAny(a.Value, "&<\"\t\n\r") {
					found = true
				}
			}
		}
		for _, c := range x.Children {
			rec(c, inSig)
		}
	}
	rec(n, false)
	return found
}

// lastKeyVer: the key version the storage handed to the task's last call of op; when the task never asked (e.g. because the
// library answered from a cache), the version that was current during the whole request, or -1 when it rotated meanwhile.
func lastKeyVer(t *Task, op string) int {
	cs := callsOf(t, op)
	if len(cs) > 0 {
		return cs[len(cs)-1].KeyVer
	}
	if op == "GetResponseSigningKey" && t.RespKeyVer0 == t.RespKeyVer1 {
		return t.RespKeyVer0
	}
	if op == "GetMetadataSigningKey" && t.MetaKeyVer0 == t.MetaKeyVer1 {
		return t.MetaKeyVer0
	}
	return -1
}

func oracleC04(r *Result) {
	w := r.World
	for _, t := range r.Tasks {
		if t.Abandoned || t.Reply == nil || t.Panic != "" || writerFaultFired(t) {
			continue
		}
		rep := t.Reply
		switch t.Msg.Kind {
		case "callback", "attrq":
			if t.Msg.Kind == "callback" && rep.Kind == RKRedirect && strings.Contains(rep.Target, "Signature=") && len(storageFaults(t)) == 0 {
				// the URL actually sent carries a Signature parameter but no SAMLResponse parameter a verifier could apply the
				// HTTP-Redirect procedure to
				r.violate("C04 redirect-signature", "C04:callback:redirect-signature-does-not-verify:no-samlresponse-parameter-in-the-url-sent",
					"the query-string signature verifies per SAML bindings §3.4.4.1 over the URL actually sent", abbreviate(rep.Target, 300), t.ID)
				continue
			}
			if !rep.IsSuccess() || len(rep.Msg.Assertions) == 0 {
				continue
			}
			kv := lastKeyVer(t, "GetResponseSigningKey")
			how := deliveryClass(rep)
			a := rep.Msg.Assertions[0]
			if how == "redirect" {
				w.probe("redirect_signature_checked")
				_, ns := firstRaw(splitRawQuery(rep.RawQuery), "Signature")
				if ns == 0 {
					r.violate("C04 unsigned-success", "C04:"+t.Msg.Kind+":unsigned-success:redirect", "no Success assertion leaves the IdP unsigned", replySummary(t), t.ID)
					continue
				}
				if kv < 0 {
					continue
				}
				if err := VerifyRedirectQuery(rep.RawQuery, "SAMLResponse", certPub(w.respKey(kv).Cert)); err != nil {
					r.violate("C04 redirect-signature", "C04:"+t.Msg.Kind+":redirect-signature-does-not-verify",
						"the query-string signature verifies per SAML bindings §3.4.4.1 over the URL actually sent, under the published certificate",
						fmt.Sprintf("%v\nquery: %s", err, abbreviate(rep.RawQuery, 700)), t.ID)
				}
				continue
			}
			w.probe("enveloped_signature_checked")
			if a.NSignatures == 0 {
				cls := how
				if c := firstCall(t, "AuthRequestByID"); c != nil && c.Snap != nil {
					cls += ":stored-binding-" + bindingClass(c.Snap.Binding)
					if c.Snap.ACS == "" {
						cls += ":empty-acs"
					}
				}
				r.violate("C04 unsigned-success", "C04:"+t.Msg.Kind+":unsigned-success:"+cls, "no Success assertion leaves the IdP unsigned", replySummary(t), t.ID)
				continue
			}
			if kv < 0 {
				continue
			}
			if _, err := VerifyEnveloped(a.Node, certPub(w.respKey(kv).Cert)); err != nil {
				cls := "plain-content"
				if needsC14NEscape(a.Node) {
					cls = "content-needs-c14n-escape"
				}
				r.violate("C04 enveloped-signature", "C04:"+t.Msg.Kind+":enveloped-signature-does-not-verify:"+cls,
					"the assertion's enveloped signature verifies under exclusive C14N with the published certificate", err.Error(), t.ID)
			}
		case "metadata":
			if rep.Kind != RKMetadata || rep.Doc == nil || w.cfg.IDP.MetaSigAlg == "" {
				continue
			}
			w.probe("metadata_signature_checked")
			kv := lastKeyVer(t, "GetMetadataSigningKey")
			if len(rep.Doc.Childs(NSDS, "Signature")) == 0 {
				r.violate("C04 unsigned-metadata", "C04:metadata:unsigned-although-signing-configured", "metadata is signed when signing is configured", replySummary(t), t.ID)
				continue
			}
			if kv < 0 {
				continue
			}
			if _, err := VerifyEnveloped(rep.Doc, certPub(w.metaKey(kv).Cert)); err != nil {
				cls := "plain-content"
				if needsC14NEscape(rep.Doc) {
					cls = "content-needs-c14n-escape"
				}
				r.violate("C04 metadata-signature", "C04:metadata:enveloped-signature-does-not-verify:"+cls,
					"the metadata signature verifies under exclusive C14N with the metadata signing certificate", err.Error(), t.ID)
			}
		}
	}
}

func (g G) planFlows(prop string) *Plan {
	o := &mixOpts{family: "flows",
		world: worldOpts{maxSPs: 3, maxUsers: 4, maxReplicas: 2, hardPct: 45, hardURLPct: 35, customAttrs: true, issuerVariety: true, endpointVariety: true,
			metaVariety: true, timeFormatVariety: true, parkVariety: true, bigUserPct: 4},
		wSSO: 22, wCallback: 22, wAttrQ: 8, wMeta: 6, wCert: 2, wSLO: 2,
		wResume: 25, wFinish: 10, wComplete: 10, wAdvance: 6, wRotate: 3, wRotateMeta: 2, wRestart: 1, wRereg: 1,
		hostVariety: true, minSteps: 4, maxSteps: 36, maxPre: 4, hardPre: true, autoFinishPct: 45, callbackAfter: 70, raceBias: true}
	if prop == "C03" {
		o.faultPcts = []int{0, 0, 0, 12}
	}
	// a fifth of the worlds: signing requirements of every kind (requests are then signed where needed), applications that move
	// to another entity more often
	if g.chance("flows.signReq", 30) {
		o.world.signReqVariety = true
		o.wRereg = 4
	}
	if prop == "C04" {
		o.wAttrQ, o.wMeta = 14, 10
		o.wTear = 2 // half-finished rotation of the response signing key record
		// consumer endpoints over the whole binding alphabet (most are refused at the SSO endpoint; what is accepted must be signed)
		o.world.acsVariety = g.chance("flows.acsVariety", 20)
		o.faultPcts = []int{0, 0, 10, 25} // a failing key read must never let an unsigned Success assertion out
	}
	p := g.planMix(prop, o)
	if prop == "C04" && g.chance("flows.algbad", 5) {
		p.World.IDP.SigAlg = g.pick("flows.algbadv", "", "http://www.w3.org/2000/09/xmldsig#dsa-sha1", "rsa-sha256")
	}
	if o.wTear > 0 {
		// a rotation that was caught half-way completes a few steps later: most of the run happens outside that window
		var out []Step
		due := -1
		for i, st := range p.Steps {
			out = append(out, st)
			if st.K == "mutate" && st.Mut == "tearKey" && due < 0 {
				due = i + g.rng(fmt.Sprintf("tear%d.len", i), 2, 6)
			}
			if due >= 0 && i >= due {
				out = append(out, Step{K: "mutate", Mut: "rotateKey"})
				due = -1
			}
		}
		p.Steps = out
	}
	g.aimAtCertExpiry(p, 7)
	return p
}

// aimAtCertExpiry: in pct % of the plans the first response signing key comes with the short-lived certificate fixture and the
// run's epoch is aimed at the end of that certificate's validity (seconds to minutes before, exactly at, just after): whatever
// the provider does differently for a certificate that is about to expire happens then.
func (g G) aimAtCertExpiry(p *Plan, pct int) {
	if !g.chance("shortRespCert", pct) {
		return
	}
	p.World.IDP.ExpiredRespCert = true
	delta := []time.Duration{0, time.Second, 30 * time.Second, 2 * time.Minute, 4*time.Minute + 59*time.Second, 5 * time.Minute, 5*time.Minute + time.Second, 10 * time.Minute, -time.Second, -time.Hour}[g.intn("shortRespCert.delta", 10)]
	at := Keys[KeyShort].Cert.NotAfter.Add(-delta)
	base := time.Date(2000, 1, 1, 0, 0, 0, 0, time.UTC)
	if ms := at.Sub(base).Milliseconds(); ms > 0 {
		p.World.EpochMs = ms
	}
}
