package sim

// C15 — concurrent requests are isolated, race-free and get unique message IDs.

import (
	"fmt"
	"reflect"
	"regexp"
	"sort"
	"strings"
	"unsafe"
)

var reMarker = regexp.MustCompile(`zq[usph][0-9]+kx`)

func markersIn(set map[string]bool, texts ...string) {
	for _, s := range texts {
		for _, m := range reMarker.FindAllString(s, -1) {
			set[m] = true
		}
	}
}

// ownMarkers: every marker the task's own request carried or that a storage record handed to this very task carried.
func ownMarkers(w *World, t *Task) map[string]bool {
	own := map[string]bool{}
	s := t.Sent
	if s != nil {
		markersIn(own, s.XML, s.XMLSigned, s.Relay, s.RawQuery, string(s.Body), s.Host, s.Path, s.CallbackID)
		if dq, ok := pctDecode(s.RawQuery); ok {
			markersIn(own, dq)
		}
		if db, ok := pctDecode(string(s.Body)); ok {
			markersIn(own, db)
		}
		for _, vs := range s.Header {
			markersIn(own, vs...)
		}
	}
	for i := range t.Calls {
		c := &t.Calls[i]
		markersIn(own, c.Args...)
		markersIn(own, c.Ret)
		if c.Snap != nil {
			markersIn(own, c.Snap.AuthRequestID, c.Snap.RelayState, c.Snap.ACS, c.Snap.AppID, c.Snap.Issuer, c.Snap.Destination, c.Snap.UserID, c.Snap.ID)
			if c.Snap.SP >= 0 {
				own[spMarker(c.Snap.SP)] = true
			}
		}
		if c.SPCfg != nil {
			markersIn(own, c.SPCfg.Entity, c.SPCfg.AppID)
			for _, a := range c.SPCfg.ACS {
				markersIn(own, a.URL)
			}
			for _, a := range c.SPCfg.SLO {
				markersIn(own, a.URL)
			}
			own[spMarker(c.SPIdx)] = true
		}
		if c.UserIdx >= 0 && c.UserIdx < len(w.cfg.Users) {
			u := &w.cfg.Users[c.UserIdx]
			markersIn(own, u.ID, u.LoginName, u.Email, u.FullName, u.GivenName, u.Surname, u.Username, u.UID)
			for _, ca := range u.Custom {
				markersIn(own, ca.Name, ca.Friendly)
				markersIn(own, ca.Values...)
			}
		}
	}
	return own
}

type idUse struct {
	id   string
	task int
	what string
}

func allProducedIDs(r *Result) []idUse {
	var out []idUse
	for _, t := range r.Tasks {
		if t.Reply == nil || t.Abandoned {
			continue
		}
		if m := t.Reply.Msg; m != nil {
			if m.ID != "" {
				out = append(out, idUse{m.ID, t.ID, m.Kind})
			}
			for _, a := range m.Assertions {
				if a.ID != "" {
					out = append(out, idUse{a.ID, t.ID, "Assertion"})
				}
			}
		}
		if t.Reply.Kind == RKMetadata && t.Reply.Doc != nil {
			t.Reply.Doc.Walk(func(n *Node) {
				if v, ok := n.AttrOK("ID"); ok && v != "" && n.NS == NSMD {
					out = append(out, idUse{v, t.ID, "metadata:" + n.Local})
				}
			})
		}
	}
	return out
}

func oracleC15(r *Result) {
	w := r.World
	concurrent := false
	for _, t := range r.Tasks {
		if t.Abandoned || t.Reply == nil {
			continue
		}
		if t.Panic != "" {
			continue
		}
		// was any other task in flight during this one?
		for _, o := range r.Tasks {
			if o != t && o.SeqInvoke < t.SeqReturn && t.SeqInvoke < o.SeqReturn {
				concurrent = true
				w.probe("request_overlapped_another")
				break
			}
		}
		own := ownMarkers(w, t)
		found := map[string]bool{}
		for _, h := range haystacks(t) {
			markersIn(found, string(h))
			if dec, ok := pctDecode(string(h)); ok && len(h) < 1<<16 {
				markersIn(found, dec)
			}
		}
		var foreign []string
		for m := range found {
			if !own[m] {
				foreign = append(foreign, m)
			}
		}
		if len(foreign) > 0 {
			sort.Strings(foreign)
			typ := map[byte]string{'u': "user", 's': "session", 'p': "service-provider", 'h': "host"}[foreign[0][2]]
			r.violate("C15 foreign-data-in-reply", "C15:isolation:"+t.Msg.Kind+":foreign-"+typ+"-data",
				"a reply is determined solely by its own request and the storage records it names",
				fmt.Sprintf("markers %v occur in the reply but neither in the request nor in any record handed to it; %s", foreign, replySummary(t)), t.ID)
		}
	}
	_ = concurrent
	// the user data in a reply is what the storage holds for the user the request names — not what an earlier or concurrent
	// request left behind in a record the storage handed out (a value slice filtered, sorted or truncated in place)
	for _, t := range r.Tasks {
		if t.Abandoned || t.Reply == nil || t.Panic != "" || t.Reply.Msg == nil || !t.Reply.IsSuccess() || len(t.Reply.Msg.Assertions) != 1 || len(storageFaults(t)) > 0 {
			continue
		}
		op := map[string]string{"callback": "SetUserinfoWithUserID", "attrq": "SetUserinfoWithLoginName"}[t.Msg.Kind]
		if op == "" {
			continue
		}
		uc := firstCall(t, op)
		if uc == nil || uc.UserIdx < 0 || uc.UserIdx >= len(w.cfg.Users) {
			continue
		}
		want := map[string]bool{}
		for _, a := range expectedAttrs(&w.cfg.Users[uc.UserIdx]) {
			want[a] = true
		}
		namesValues := false
		for _, q := range t.Msg.Requested {
			if len(q.Values) > 0 {
				namesValues = true
			}
		}
		if namesValues || len(t.Msg.Tamper) > 0 {
			continue // what a query that names values itself gets back is C12's business
		}
		w.probe("reply_attributes_compared_with_stored_record")
		for _, got := range attrsOf(t.Reply.Msg.Assertions[0]) {
			if !want[got] {
				r.violate("C15 attributes-not-the-stored-record", "C15:isolation:"+t.Msg.Kind+":attribute-differs-from-the-stored-user-record",
					"a reply is determined solely by its own request and the storage records it names",
					fmt.Sprintf("attribute %s is not among the attributes stored for that user %v", got, expectedAttrs(&w.cfg.Users[uc.UserIdx])), t.ID)
				break
			}
		}
	}
	// same request, same registration ⇒ same outcome: the consumer endpoint persisted for an AuthnRequest is a function of that
	// request and of the service-provider record it names, not of what other sessions did before
	type sel struct {
		sp, ver          int
		bind, url, index string
	}
	first := map[sel]*Task{}
	for _, t := range r.Tasks {
		if t.Msg.Kind != "sso" || t.Abandoned || t.Reply == nil || t.Panic != "" || t.Sent == nil || !t.Sent.Conformant {
			continue
		}
		ps := persisted(t)
		rec := firstCall(t, "GetEntityByID")
		if len(ps) != 1 || rec == nil || rec.SPCfg == nil {
			continue
		}
		k := sel{rec.SPIdx, rec.SPVer, t.Msg.ProtoBind, t.Msg.ACSURL, t.Msg.ACSIndex}
		if o, ok := first[k]; ok {
			w.probe("same_request_outcome_compared")
			a, b := persisted(o)[0].Snap, ps[0].Snap
			if a.ACS != b.ACS || a.Binding != b.Binding {
				r.violate("C15 outcome-depends-on-history", "C15:isolation:sso:same-request-different-consumer-endpoint",
					"each reply is determined solely by its own request and the storage records it names",
					fmt.Sprintf("two conformant requests of sp%d (registration v%d) with ProtocolBinding=%q ACS URL=%q index=%q: task %d persisted (%s, %s), task %d persisted (%s, %s)",
						k.sp, k.ver, k.bind, k.url, k.index, o.ID, a.ACS, a.Binding, t.ID, b.ACS, b.Binding), t.ID)
			}
		} else {
			first[k] = t
		}
	}
	// ids
	uses := allProducedIDs(r)
	seen := map[string]idUse{}
	for _, u := range uses {
		w.probe("message_id_checked")
		if !isNCName(u.id) {
			r.violate("C15 id-not-an-xs-id", "C15:ids:not-an-ncname:"+strings.SplitN(u.what, ":", 2)[0], "every produced ID is a legal xs:ID token", fmt.Sprintf("%q (%s, task %d)", u.id, u.what, u.task), u.task)
		}
		if prev, dup := seen[u.id]; dup {
			r.violate("C15 duplicate-id", "C15:ids:duplicate", "all response, assertion and metadata IDs are pairwise distinct",
				fmt.Sprintf("%q produced as %s by task %d and as %s by task %d", u.id, prev.what, prev.task, u.what, u.task), u.task)
		}
		seen[u.id] = u
	}
	if w.SharedChanged != "" {
		w.probe("shared_state_changed_after_construction")
	}
}

// ---------------------------------------------------------------------------
// shared-state probe: a structural hash of a replica's provider (unexported fields included)

func deepHash(v any) string {
	var sb strings.Builder
	seen := map[uintptr]bool{}
	var walk func(rv reflect.Value, depth int)
	walk = func(rv reflect.Value, depth int) {
		if depth > 12 || !rv.IsValid() {
			return
		}
		t := rv.Type()
		if pp := t.PkgPath(); pp == "verif/sim" || strings.HasPrefix(pp, "html/template") || strings.HasPrefix(pp, "text/template") || pp == "sync" || strings.HasPrefix(pp, "github.com/gorilla") || pp == "regexp" {
			return
		}
		switch rv.Kind() {
		case reflect.Pointer:
			if rv.IsNil() {
				sb.WriteString("nil;")
				return
			}
			if seen[rv.Pointer()] {
				return
			}
			seen[rv.Pointer()] = true
			walk(rv.Elem(), depth+1)
		case reflect.Interface:
			if rv.IsNil() {
				sb.WriteString("nil;")
				return
			}
			walk(rv.Elem(), depth+1)
		case reflect.Struct:
			for i := 0; i < rv.NumField(); i++ {
				f := rv.Field(i)
				if !f.CanInterface() {
					if !f.CanAddr() {
						continue
					}
					f = reflect.NewAt(f.Type(), unsafe.Pointer(f.UnsafeAddr())).Elem()
				}
				sb.WriteString(t.Field(i).Name + ":")
				walk(f, depth+1)
			}
		case reflect.Slice, reflect.Array:
			fmt.Fprintf(&sb, "[%d]", rv.Len())
			for i := 0; i < rv.Len() && i < 64; i++ {
				walk(rv.Index(i), depth+1)
			}
		case reflect.Map:
			keys := rv.MapKeys()
			ks := make([]string, 0, len(keys))
			for _, k := range keys {
				ks = append(ks, fmt.Sprint(k))
			}
			sort.Strings(ks)
			fmt.Fprintf(&sb, "map%v;", ks)
		case reflect.String:
			fmt.Fprintf(&sb, "%q;", rv.String())
		case reflect.Bool:
			fmt.Fprintf(&sb, "%v;", rv.Bool())
		case reflect.Int, reflect.Int8, reflect.Int16, reflect.Int32, reflect.Int64:
			fmt.Fprintf(&sb, "%d;", rv.Int())
		case reflect.Uint, reflect.Uint8, reflect.Uint16, reflect.Uint32, reflect.Uint64, reflect.Uintptr:
			fmt.Fprintf(&sb, "%d;", rv.Uint())
		case reflect.Float32, reflect.Float64:
			fmt.Fprintf(&sb, "%v;", rv.Float())
		case reflect.Func, reflect.Chan, reflect.UnsafePointer:
		}
	}
	rv := reflect.ValueOf(v)
	if rv.Kind() == reflect.Pointer && !rv.IsNil() {
		// make the pointee addressable for unexported fields
		walk(rv.Elem(), 0)
	} else {
		walk(rv, 0)
	}
	return sb.String()
}

func (w *World) snapshotShared() string {
	var sb strings.Builder
	for i, rp := range w.replicas {
		if rp != nil && rp.Prov != nil {
			fmt.Fprintf(&sb, "replica%d.%d{%s}", i, rp.Gen, deepHash(rp.Prov))
		}
	}
	return sb.String()
}

func (g G) planC15() *Plan {
	o := &mixOpts{family: "concurrent-clients",
		world: worldOpts{maxSPs: 4, maxUsers: 4, maxReplicas: 1, hardPct: 5, hardURLPct: 15, customAttrs: true, issuerVariety: true, endpointVariety: true, metaVariety: true, acsSupportedVariety: true,
			sloVariety: true, parkVariety: true},
		wSSO: 16, wCallback: 18, wSLO: 8, wAttrQ: 10, wMeta: 8, wCert: 3, wReady: 1, wHealthz: 1,
		wResume: 50, wFinish: 4, wComplete: 8, wPair: 12, wRotate: 1, wAdvance: 1, wRandFail: 1,
		devPct: 8, faultPcts: []int{0, 0, 0, 10}, hostVariety: true, wRereg: 2, bodyFaultPct: 6,
		minSteps: 8, maxSteps: 50, maxPre: 5, raceBias: true}
	p := g.planMix("C15", o)
	p.World.Shadow = true
	p.World.SharedSP = g.chance("sharedSP", 60)
	p.World.ParkWrites = g.chance("parkWrites", 60)
	return p
}
