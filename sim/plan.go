package sim

// A Plan is one complete, explicit description of a simulated execution:
// world configuration plus every step, fault and string. Run(plan) is a pure
// function of the plan and the code under test; it draws nothing. The plan,
// serialised as JSON, is the replay file.

import (
	"encoding/json"
	"os"
)

type EndpointCfg struct {
	Set  bool   `json:"set,omitempty"`
	Path string `json:"path,omitempty"`
	URL  string `json:"url,omitempty"`
}

type OrgCfg struct{ Name, DisplayName, URL string }
type ContactCfg struct{ Type, Company, GivenName, SurName, Email, Phone string }

type IDPCfg struct {
	IssuerKind string   `json:"issuerKind"` // static | host | forwarded | header
	Issuer     string   `json:"issuer"`     // static: full URL; otherwise: path
	Headers    []string `json:"headers,omitempty"`
	Insecure   bool     `json:"insecure,omitempty"`

	SSO, SLO, Attr, Callback, Cert, Metadata EndpointCfg

	WantSigned    string      `json:"wantSigned"`
	SigAlg        string      `json:"sigAlg"`
	MetaSigAlg    string      `json:"metaSigAlg,omitempty"`
	EncAlg        string      `json:"encAlg,omitempty"`
	Org           *OrgCfg     `json:"org,omitempty"`
	Contact       *ContactCfg `json:"contact,omitempty"`
	TimeFormat    string      `json:"timeFormat,omitempty"`
	ValidUntilS   int64       `json:"validUntilS,omitempty"`
	CacheDuration string      `json:"cacheDuration,omitempty"`
	ErrorURL      string      `json:"errorURL,omitempty"`
	NoIDPConfigMD bool        `json:"-"`
	// the first response signing key version comes with a certificate that is outside its validity period at any simulated instant after 2001
	ExpiredRespCert bool `json:"expiredRespCert,omitempty"`
}

type ACSCfg struct {
	Binding   string `json:"binding"`
	Index     string `json:"index"`
	IsDefault string `json:"isDefault,omitempty"`
	URL       string `json:"url"`
	RespLoc   string `json:"respLoc,omitempty"` // optional ResponseLocation attribute (saml-metadata 2.2.2); responses still go to Location
}

type SLOCfg struct {
	Binding string `json:"binding"`
	URL     string `json:"url"`
	RespLoc string `json:"respLoc,omitempty"` // optional ResponseLocation attribute
}

type SPCfg struct {
	Entity              string   `json:"entity"`
	AppID               string   `json:"appID"`
	Key                 int      `json:"key"`
	HasCert             bool     `json:"hasCert"`
	CertUse             string   `json:"certUse,omitempty"` // "signing", "" (absent use attr)
	CertWrap            bool     `json:"certWrap,omitempty"`
	EncKey              int      `json:"encKey,omitempty"`   // 0 = none; otherwise fixture index of a second KeyDescriptor with use="encryption"
	EncFirst            bool     `json:"encFirst,omitempty"` // the encryption KeyDescriptor precedes the signing one
	DecoyNS             bool     `json:"decoyNS,omitempty"`  // elements of a foreign namespace named AssertionConsumerService / SingleLogoutService precede the real ones
	ValidUntil          string   `json:"validUntil,omitempty"` // validUntil attribute of the SP's EntityDescriptor (a literal instant)
	AuthnRequestsSigned string   `json:"authnRequestsSigned,omitempty"` // "" = attribute absent
	ACS                 []ACSCfg `json:"acs"`
	SLO                 []SLOCfg `json:"slo,omitempty"`
	SkewMs              int64    `json:"skewMs,omitempty"`
	MDPrefix            string   `json:"mdPrefix,omitempty"` // namespace prefix style of the metadata document
	Corrupt             *Corrupt `json:"corrupt,omitempty"`  // corruption applied to the stored metadata document
}

// Corrupt describes a byte- or structure-level corruption of a document.
type Corrupt struct {
	Kind string `json:"kind"` // truncate | bitflip | dropElem | dupElem | emptyElem | dropAttr | emptyAttr | dupAttr | insert
	A    int    `json:"a"`
	B    int    `json:"b,omitempty"`
	S    string `json:"s,omitempty"`
}

type CustomAttrCfg struct {
	Name, Friendly, Format string
	Values                 []string
}

type UserCfg struct {
	ID, LoginName                                      string
	Email, FullName, GivenName, Surname, Username, UID string
	Custom                                             []CustomAttrCfg
	// BigN > 0: the user additionally carries one custom attribute with BigN high-entropy values (group memberships of a
	// large directory): responses for this user are tens of kilobytes, redirect URLs longer than many stacks like
	BigN int `json:",omitempty"`
}

type WorldCfg struct {
	Replicas       int       `json:"replicas"`
	IDP            IDPCfg    `json:"idp"`
	SPs            []SPCfg   `json:"sps"`
	Rogue          SPCfg     `json:"rogue"`
	Users          []UserCfg `json:"users"`
	UUIDKey        uint64    `json:"uuidKey"`
	RealUUID       bool      `json:"realUUID,omitempty"`
	EpochMs        int64     `json:"epochMs"`
	ParkWrites     bool      `json:"parkWrites,omitempty"`
	ParkBody       bool      `json:"parkBody,omitempty"`
	SharedSP       bool      `json:"sharedSP,omitempty"`   // storage hands out one shared *ServiceProvider per registration
	NilUnknown     bool      `json:"nilUnknown,omitempty"` // storage flavour: an unknown entity is reported as (nil, nil) instead of an error
	Presessions    []Preseed `json:"presessions,omitempty"`
	CtxAware       bool      `json:"ctxAware,omitempty"`       // storage flavour: a call whose context is done when it gets to run returns the context's error
	TenantKeys     bool      `json:"tenantKeys,omitempty"`     // storage flavour: signing keys are per tenant, found through the issuer value of the context
	TenantSessions bool      `json:"tenantSessions,omitempty"` // storage flavour: stored requests are kept per tenant (the issuer value of the context); ids are per-tenant counters, so the same id exists in several tenants
	LiveRecords    bool      `json:"liveRecords,omitempty"`    // storage flavour: AuthRequestByID hands out a live view — Done() and GetUserID() read the stored request's current state at the moment they are called
	OwnSlices      bool      `json:"ownSlices,omitempty"`      // storage flavour: an in-memory storage that passes the value slices it holds itself to SetCustomAttribute (no copy per call)
	TypedNil       bool      `json:"typedNil,omitempty"`       // storage flavour: a failing request lookup / persist returns its error next to a typed nil pointer (var r *record; return r, err)
	Neighbours     bool      `json:"neighbours,omitempty"`     // other provider instances (other issuer, other endpoint paths) are constructed in the same process
	Shadow         bool      `json:"shadow,omitempty"`         // compare every undisturbed reply with a re-execution on a fresh provider instance (shadow.go)
}

// Preseed is a stored auth request that exists before the run starts (a
// record "the SSO endpoint did not persist itself").
type Preseed struct {
	SP            int    `json:"sp"`
	AuthRequestID string `json:"authRequestID"`
	RelayState    string `json:"relayState"`
	ACS           string `json:"acs"`
	Binding       string `json:"binding"`
	AppID         string `json:"appID,omitempty"` // default: the SP's
	Done          bool   `json:"done"`
	User          int    `json:"user"`
}

// Style is the serialisation style of a conformant message.
type Style struct {
	Prefix     int  `json:"prefix,omitempty"`     // 0 samlp:/saml:, 1 default ns on each, 2 exotic prefixes, 3 saml2p:/saml2:
	AttrOrder  int  `json:"attrOrder,omitempty"`  // permutation seed
	Indent     int  `json:"indent,omitempty"`     // 0 none, 1 newline+2 spaces, 2 tabs
	XMLDecl    bool `json:"xmlDecl,omitempty"`    //
	Frac       int  `json:"frac,omitempty"`       // fractional digits of timestamps 0..9
	Enc        int  `json:"enc,omitempty"`        // percent-encoding style
	Deflate    int  `json:"deflate,omitempty"`    // compression level 1..9 (0 → 9)
	SigPrefix  int  `json:"sigPrefix,omitempty"`  // 0 ds, 1 dsig, 2 default ns
	KeyInfo    bool `json:"keyInfo,omitempty"`    //
	WrapCert   bool `json:"wrapCert,omitempty"`   //
	WrapB64    bool `json:"wrapB64,omitempty"`    // wrap base64 of POST SAMLRequest at 76 columns? (legal for base64 in forms: no) – only signature values
	SigIndent  bool `json:"sigIndent,omitempty"`  //
	Optional   int  `json:"optional,omitempty"`   // bitmask of optional parts
	SelfClose  bool `json:"selfClose,omitempty"`  // use <a/> vs <a></a> for empty elements
	EncodingP  int  `json:"encodingP,omitempty"`  // redirect: 0 no SAMLEncoding param, 1 explicit DEFLATE URI
	BodyAndURL bool `json:"bodyAndURL,omitempty"` // POST with extra unrelated query parameters on the URL
	Chunked    bool `json:"chunked,omitempty"`    // the body is sent with Transfer-Encoding: chunked (ContentLength unknown)
	TextForm   int  `json:"textForm,omitempty"`   // lexical form of Issuer / NameID text: 0 plain, 1 CDATA section, 2 numeric character references, 3 split by a comment, 4 CDATA + plain
	Trailer    int  `json:"trailer,omitempty"`    // what follows the end tag of the document element: 0 nothing, 1 LF, 2 CRLF, 3 a comment and LF
	CT         int  `json:"ct,omitempty"`         // spelling of the request Content-Type: 0 bare, 1 with charset parameter, 2 mixed case, 3 charset without blank / quoted
	HoistNS    int  `json:"hoistNS,omitempty"`    // SOAP: the query's namespace declarations sit on an ancestor: 0 no, 1 soap:Envelope, 2 soap:Body
	B64Lines   int  `json:"b64Lines,omitempty"`   // POST SAMLRequest base64 with line breaks (RFC 2045 layout): 0 none, 1 CRLF every 76, 2 LF every 64
}

// Tamper is one in-flight manipulation by the network attacker, or one
// deviation from conformance.
type Tamper struct {
	Op string `json:"op"`
	A  int    `json:"a,omitempty"`
	B  int    `json:"b,omitempty"`
	S  string `json:"s,omitempty"`
}

// MsgSpec describes one HTTP request sent to an IdP replica.
type MsgSpec struct {
	Kind      string `json:"kind"` // sso | callback | slo | attrq | metadata | cert | healthz | ready | raw
	SP        int    `json:"sp"`   // index into SPs, -1 = rogue (unregistered) SP
	Replica   int    `json:"replica,omitempty"`
	Host      string `json:"host,omitempty"`
	Forwarded string `json:"forwarded,omitempty"`
	XFHeader  string `json:"xfHeader,omitempty"` // value for the configured custom header
	XFWhich   int    `json:"xfWhich,omitempty"`  // with several configured header names: 0 all of them (first = the value, others a decoy), 1 only the first, 2 only the second
	Proto     int    `json:"proto,omitempty"`    // HTTP version of the request: 0 HTTP/1.1, 1 HTTP/1.0, 2 HTTP/2
	ReqIDHdr  string `json:"reqIDHdr,omitempty"` // X-Request-Id header a gateway put on the request (retries repeat it)
	Head      bool   `json:"head,omitempty"`     // GET endpoints (metadata, certificate, healthz, ready) asked with HEAD
	TLS       bool   `json:"tls,omitempty"`      // the request arrives over TLS at the provider itself (r.TLS set) rather than through a terminating proxy

	Binding    string `json:"binding,omitempty"` // redirect | post | soap
	Sign       string `json:"sign,omitempty"`    // "", rsa-sha1, rsa-sha256
	SignKey    int    `json:"signKey,omitempty"` // -1 → SP's current key; otherwise fixture index
	Style      Style  `json:"style"`
	ID         string `json:"id,omitempty"`
	RelayState string `json:"relayState,omitempty"`
	HasRelay   bool   `json:"hasRelay,omitempty"`

	DestMode   string `json:"destMode,omitempty"`   // advertised | absent | other-endpoint | foreign | case | slash | scheme | literal
	DestLit    string `json:"destLit,omitempty"`    //
	IssuerMode string `json:"issuerMode,omitempty"` // own | absent | empty | other-sp | rogue | lookalike | literal
	IssuerLit  string `json:"issuerLit,omitempty"`
	ProtoBind  string `json:"protoBind,omitempty"` // ProtocolBinding attribute ("" absent)
	ACSURL     string `json:"acsURL,omitempty"`
	ACSIndex   string `json:"acsIndex,omitempty"`
	Version    string `json:"version,omitempty"` // "" → "2.0"; "-" → attribute absent
	NoID       bool   `json:"noID,omitempty"`

	// Conditions (AuthnRequest) / NotOnOrAfter+IssueInstant (LogoutRequest): offsets relative to the SP clock at send time.
	HasNotBefore    bool   `json:"hasNotBefore,omitempty"`
	NotBeforeNs     int64  `json:"notBeforeNs,omitempty"`
	HasNotOnOrAfter bool   `json:"hasNotOnOrAfter,omitempty"`
	NotOnOrAfterNs  int64  `json:"notOnOrAfterNs,omitempty"`
	IssueInstantNs  int64  `json:"issueInstantNs,omitempty"`
	TimeLit         string `json:"timeLit,omitempty"` // literal replacing the NotOnOrAfter/NotBefore lexical form (malformed timestamps)
	TimeLitWhich    int    `json:"timeLitWhich,omitempty"`
	DelayNs         int64  `json:"delayNs,omitempty"`     // browser delay between SP stamping and delivery (clock advances first)
	DelayAnchor     string `json:"delayAnchor,omitempty"` // "", notOnOrAfter, notBefore, issueInstant: deliver at that instant of the message (as written in it) + DelayNs

	// callback
	Session int    `json:"session,omitempty"`
	IDMode  string `json:"idMode,omitempty"`  // session | unknown | empty | other | huge | literal
	IDLit   string `json:"idLit,omitempty"`   //
	IDPlace string `json:"idPlace,omitempty"` // query | form | both
	Method  string `json:"method,omitempty"`

	// slo
	NameID       string   `json:"nameID,omitempty"`
	NoNameID     bool     `json:"noNameID,omitempty"`
	SessionIndex []string `json:"sessionIndex,omitempty"`

	// attrq
	User      int             `json:"user,omitempty"`
	SubjMode  string          `json:"subjMode,omitempty"` // user | unknown | absent | literal
	SubjLit   string          `json:"subjLit,omitempty"`
	Requested []CustomAttrCfg `json:"requested,omitempty"`

	Tamper []Tamper `json:"tamper,omitempty"`
	Extra  []string `json:"extra,omitempty"` // extra form/query parameters "k=v"

	// a storage fault aimed at the n-th storage call this request makes (1-based), whoever resumes it
	FaultAt   int    `json:"faultAt,omitempty"`
	FaultKind string `json:"faultKind,omitempty"`

	DeadlineNs int64 `json:"deadlineNs,omitempty"` // server-side deadline of the request context (simulated clock)

	// transport faults
	BodyFault   string `json:"bodyFault,omitempty"` // "", short, err, eof
	BodyOff     int    `json:"bodyOff,omitempty"`
	WriterFault bool   `json:"writerFault,omitempty"`
	WriterOff   int    `json:"writerOff,omitempty"`

	// probe: a message built at send time from the metadata document the IdP served earlier in the run for the same host
	ProbeEP      string `json:"probeEP,omitempty"` // sso | slo | attr
	Probe        bool   `json:"probe,omitempty"`
	PathOverride string `json:"pathOverride,omitempty"`
	Unsigned     bool   `json:"unsigned,omitempty"` // probe: never sign, whatever is advertised

	// raw
	RawPath   string `json:"rawPath,omitempty"`
	RawQuery  string `json:"rawQuery,omitempty"`
	RawBody   string `json:"rawBody,omitempty"`
	RawCT     string `json:"rawCT,omitempty"`
	Recovery  bool   `json:"recovery,omitempty"`  // issued by the recovery phase
	Bystander bool   `json:"bystander,omitempty"` //
}

type Step struct {
	K string `json:"k"` // send | resume | finish | until | cancel | pair | advance | mutate | restart | heal | drain

	Msg *MsgSpec `json:"msg,omitempty"`

	Pick  int    `json:"pick,omitempty"`
	Pick2 int    `json:"pick2,omitempty"`
	ByID  bool   `json:"byID,omitempty"` // Pick names a task id instead of an index into the parked set
	Fault string `json:"fault,omitempty"`
	Op    string `json:"op,omitempty"` // until: the storage operation at whose entry the task is left parked

	Ns int64 `json:"ns,omitempty"`

	Mut string `json:"mut,omitempty"` // complete | rotateKey | rotateMetaKey | reregister | deleteSP | deleteRequest | uncomplete
	A   int    `json:"a,omitempty"`
	B   int    `json:"b,omitempty"`

	Replica int `json:"replica,omitempty"`
}

type ViolationRec struct {
	Rule     string `json:"rule"`
	Key      string `json:"key"`
	Expected string `json:"expected"`
	Observed string `json:"observed"`
	Digest   string `json:"history_digest,omitempty"`
	Task     int    `json:"task"`
}

type Plan struct {
	Format   int      `json:"format"`
	Property string   `json:"property"`
	Family   string   `json:"family,omitempty"`
	Mode     string   `json:"mode"` // serial | race
	Seed     uint64   `json:"seed"`
	Worker   int      `json:"worker"`
	Case     int      `json:"case"`
	World    WorldCfg `json:"world"`
	Steps    []Step   `json:"steps"`
	Recovery bool     `json:"recovery,omitempty"` // append the recovery phase after the steps

	BystanderSig string `json:"bystanderSig,omitempty"` // C10 enumeration: the bystander's reply in the fault-free run

	Violation *ViolationRec `json:"violation,omitempty"`
}

func (p *Plan) Clone() *Plan {
	b, _ := json.Marshal(p)
	var q Plan
	_ = json.Unmarshal(b, &q)
	return &q
}

func LoadPlan(path string) (*Plan, error) {
	b, err := os.ReadFile(path)
	if err != nil {
		return nil, err
	}
	var p Plan
	if err := json.Unmarshal(b, &p); err != nil {
		return nil, err
	}
	return &p, nil
}

func (p *Plan) Save(path string) error {
	b, err := json.MarshalIndent(p, "", " ")
	if err != nil {
		return err
	}
	return os.WriteFile(path, b, 0o644)
}
