package sim

// Oracle 1: a generic, namespace-aware XML reader that shares no code with
// /repo's struct-tag decoding. It is deliberately strict: exactly one root
// element, matching end tags, declared prefixes, no duplicate attributes, no
// non-whitespace content outside the root.

import (
	"bytes"
	"encoding/xml"
	"fmt"
	"io"
	"strings"
)

const (
	NSP    = "urn:oasis:names:tc:SAML:2.0:protocol"
	NSA    = "urn:oasis:names:tc:SAML:2.0:assertion"
	NSDS   = "http://www.w3.org/2000/09/xmldsig#"
	NSMD   = "urn:oasis:names:tc:SAML:2.0:metadata"
	NSSOAP = "http://schemas.xmlsoap.org/soap/envelope/"
	NSXML  = "http://www.w3.org/XML/1998/namespace"
	NSEC   = "http://www.w3.org/2001/10/xml-exc-c14n#"
)

type XAttr struct {
	Prefix, Local, NS, Value string
}

type NSDecl struct {
	Prefix, URI string
}

type Node struct {
	IsText bool
	Text   string

	Prefix, Local, NS string
	Attrs             []XAttr
	NSDecls           []NSDecl
	Children          []*Node
	Parent            *Node
}

func (n *Node) lookupNS(prefix string) (string, bool) {
	if prefix == "xml" {
		return NSXML, true
	}
	for e := n; e != nil; e = e.Parent {
		for _, d := range e.NSDecls {
			if d.Prefix == prefix {
				return d.URI, true
			}
		}
	}
	if prefix == "" {
		return "", true
	}
	return "", false
}

// ParseXML parses one complete document.
func ParseXML(b []byte) (*Node, error) { return parseXML(b, false) }

// ParseXMLLenient reads a document the way a forgiving stream reader does: a repeated attribute overrides the earlier
// one, an undeclared prefix stands for itself, and anything outside the first root element is ignored. It exists so that the
// oracles can still evaluate the *other* conditions of a statement on input that is not well-formed.
func ParseXMLLenient(b []byte) (*Node, error) { return parseXML(b, true) }

func parseXML(b []byte, lenient bool) (*Node, error) {
	dec := xml.NewDecoder(bytes.NewReader(b))
	dec.Strict = true
	var root, cur *Node
	for {
		tok, err := dec.RawToken()
		if err == io.EOF {
			break
		}
		if err != nil {
			if lenient && root != nil && cur == nil {
				return root, nil
			}
			return nil, err
		}
		switch t := tok.(type) {
		case xml.StartElement:
			if cur == nil && root != nil {
				if lenient {
					return root, nil
				}
				return nil, fmt.Errorf("more than one root element")
			}
			n := &Node{Prefix: t.Name.Space, Local: t.Name.Local, Parent: cur}
			seen := map[string]bool{}
			for _, a := range t.Attr {
				k := a.Name.Space + ":" + a.Name.Local
				if seen[k] {
					if !lenient {
						return nil, fmt.Errorf("duplicate attribute %s", k)
					}
					for i := range n.Attrs {
						if n.Attrs[i].Prefix == a.Name.Space && n.Attrs[i].Local == a.Name.Local {
							n.Attrs[i].Value = a.Value
						}
					}
					continue
				}
				seen[k] = true
				switch {
				case a.Name.Space == "" && a.Name.Local == "xmlns":
					n.NSDecls = append(n.NSDecls, NSDecl{"", a.Value})
				case a.Name.Space == "xmlns":
					n.NSDecls = append(n.NSDecls, NSDecl{a.Name.Local, a.Value})
				default:
					n.Attrs = append(n.Attrs, XAttr{Prefix: a.Name.Space, Local: a.Name.Local, Value: a.Value})
				}
			}
			ns, ok := n.lookupNS(n.Prefix)
			if !ok {
				if !lenient {
					return nil, fmt.Errorf("undeclared prefix %q on element %s", n.Prefix, n.Local)
				}
				ns = n.Prefix
			}
			n.NS = ns
			seenQ := map[string]bool{}
			for i := range n.Attrs {
				a := &n.Attrs[i]
				if a.Prefix != "" {
					ans, ok := n.lookupNS(a.Prefix)
					if !ok {
						if !lenient {
							return nil, fmt.Errorf("undeclared prefix %q on attribute %s", a.Prefix, a.Local)
						}
						ans = a.Prefix
					}
					a.NS = ans
				}
				q := a.NS + "\x00" + a.Local
				if seenQ[q] && !lenient {
					return nil, fmt.Errorf("duplicate qualified attribute %s", a.Local)
				}
				seenQ[q] = true
			}
			if cur != nil {
				cur.Children = append(cur.Children, n)
			} else {
				root = n
			}
			cur = n
		case xml.EndElement:
			if cur == nil {
				if lenient && root != nil {
					return root, nil
				}
				return nil, fmt.Errorf("unexpected end element %s", t.Name.Local)
			}
			if t.Name.Space != cur.Prefix || t.Name.Local != cur.Local {
				return nil, fmt.Errorf("end element %s:%s does not match %s:%s", t.Name.Space, t.Name.Local, cur.Prefix, cur.Local)
			}
			cur = cur.Parent
		case xml.CharData:
			if cur == nil {
				if strings.TrimSpace(string(t)) != "" && !lenient {
					return nil, fmt.Errorf("character data outside root element")
				}
				continue
			}
			s := string(t)
			if l := len(cur.Children); l > 0 && cur.Children[l-1].IsText {
				cur.Children[l-1].Text += s
			} else {
				cur.Children = append(cur.Children, &Node{IsText: true, Text: s, Parent: cur})
			}
		case xml.Comment, xml.ProcInst, xml.Directive:
			// ignored (exc-c14n without comments)
		}
	}
	if cur != nil {
		return nil, fmt.Errorf("unclosed element %s", cur.Local)
	}
	if root == nil {
		return nil, fmt.Errorf("no root element")
	}
	return root, nil
}

func (n *Node) Is(ns, local string) bool {
	return n != nil && !n.IsText && n.NS == ns && n.Local == local
}

func (n *Node) Elems() []*Node {
	var out []*Node
	if n == nil {
		return nil
	}
	for _, c := range n.Children {
		if !c.IsText {
			out = append(out, c)
		}
	}
	return out
}

func (n *Node) Childs(ns, local string) []*Node {
	var out []*Node
	if n == nil {
		return nil
	}
	for _, c := range n.Children {
		if c.Is(ns, local) {
			out = append(out, c)
		}
	}
	return out
}

func (n *Node) Child(ns, local string) *Node {
	if n == nil {
		return nil
	}
	for _, c := range n.Children {
		if c.Is(ns, local) {
			return c
		}
	}
	return nil
}

// Path follows a chain of (ns, local) pairs taking the first match at each level.
func (n *Node) Path(pairs ...string) *Node {
	cur := n
	for i := 0; i+1 < len(pairs) && cur != nil; i += 2 {
		cur = cur.Child(pairs[i], pairs[i+1])
	}
	return cur
}

// Attr returns the value of the unqualified attribute.
func (n *Node) Attr(local string) string {
	v, _ := n.AttrOK(local)
	return v
}

func (n *Node) AttrOK(local string) (string, bool) {
	if n == nil {
		return "", false
	}
	for _, a := range n.Attrs {
		if a.NS == "" && a.Local == local {
			return a.Value, true
		}
	}
	return "", false
}

func (n *Node) TextContent() string {
	if n == nil {
		return ""
	}
	if n.IsText {
		return n.Text
	}
	var sb strings.Builder
	for _, c := range n.Children {
		sb.WriteString(c.TextContent())
	}
	return sb.String()
}

// Walk visits every element (not text) in document order.
func (n *Node) Walk(f func(*Node)) {
	if n == nil || n.IsText {
		return
	}
	f(n)
	for _, c := range n.Children {
		c.Walk(f)
	}
}

// FindAll returns all descendant-or-self elements with that name.
func (n *Node) FindAll(ns, local string) []*Node {
	var out []*Node
	n.Walk(func(e *Node) {
		if e.NS == ns && e.Local == local {
			out = append(out, e)
		}
	})
	return out
}

// FindLocal returns all descendant-or-self elements with that local name in any namespace.
func (n *Node) FindLocal(local string) []*Node {
	var out []*Node
	n.Walk(func(e *Node) {
		if e.Local == local {
			out = append(out, e)
		}
	})
	return out
}

// isNCName checks the xs:ID / NCName production (ASCII subset plus any non-ASCII letter is accepted conservatively).
func isNCName(s string) bool {
	if s == "" {
		return false
	}
	for i, r := range s {
		switch {
		case r == '_' || (r >= 'a' && r <= 'z') || (r >= 'A' && r <= 'Z'):
		case r >= 0x80 && r != 0xD7 && r != 0xF7:
		case i > 0 && ((r >= '0' && r <= '9') || r == '-' || r == '.' || r == 0xB7):
		default:
			return false
		}
	}
	return true
}
