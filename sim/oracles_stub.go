package sim

func oracleC09(r *Result) {}
func oracleC15(r *Result) {}
