package sim

func oracleC02(r *Result) {}
func oracleC05(r *Result) {}
func oracleC06(r *Result) {}
func oracleC07(r *Result) {}
func oracleC09(r *Result) {}
func oracleC11(r *Result) {}
func oracleC12(r *Result) {}
func oracleC13(r *Result) {}
func oracleC15(r *Result) {}
