package sim

func oracleC15(r *Result) {}
