package sim

func oracleC02(r *Result) {}
func oracleC09(r *Result) {}
func oracleC11(r *Result) {}
func oracleC15(r *Result) {}
