package sim

// C11 — published metadata matches what the IdP actually does. The simulated SP bootstraps itself from the metadata document
// the IdP served earlier in the same run (entityID, endpoint locations, signing certificate, WantAuthnRequestsSigned) and then
// acts on it.

import (
	"bytes"
	"encoding/pem"
	"fmt"
	"strings"
)

func hostKeyOf(m *MsgSpec, c *IDPCfg) string {
	return hostFor(m, c) + "|" + m.Forwarded + "|" + m.XFHeader
}

// MetaView is what an SP reads from a served metadata document.
type MetaView struct {
	EntityID    string
	SSO         map[string]string // binding → location
	SLO         map[string]string
	Attr        string
	SigningCert []string // per descriptor
	WantSigned  string
	HasWant     bool
}

func viewMetadata(doc *Node) *MetaView {
	if doc == nil || doc.NS != NSMD || doc.Local != "EntityDescriptor" {
		return nil
	}
	v := &MetaView{SSO: map[string]string{}, SLO: map[string]string{}}
	v.EntityID = doc.Attr("entityID")
	certsOf := func(d *Node) {
		for _, kd := range d.Childs(NSMD, "KeyDescriptor") {
			if u := kd.Attr("use"); u == "signing" || u == "" {
				if x := kd.Path(NSDS, "KeyInfo", NSDS, "X509Data", NSDS, "X509Certificate"); x != nil {
					v.SigningCert = append(v.SigningCert, stripWS(x.TextContent()))
				}
			}
		}
	}
	if idp := doc.Child(NSMD, "IDPSSODescriptor"); idp != nil {
		v.WantSigned, v.HasWant = idp.AttrOK("WantAuthnRequestsSigned")
		for _, e := range idp.Childs(NSMD, "SingleSignOnService") {
			v.SSO[e.Attr("Binding")] = e.Attr("Location")
		}
		for _, e := range idp.Childs(NSMD, "SingleLogoutService") {
			v.SLO[e.Attr("Binding")] = e.Attr("Location")
		}
		certsOf(idp)
	}
	if aa := doc.Child(NSMD, "AttributeAuthorityDescriptor"); aa != nil {
		for _, e := range aa.Childs(NSMD, "AttributeService") {
			v.Attr = e.Attr("Location")
		}
		certsOf(aa)
	}
	return v
}

// latestMetadata: the last metadata document served for the same request host.
func (w *World) latestMetadata(hostKey string) (*Task, *MetaView) {
	for i := len(w.tasks) - 1; i >= 0; i-- {
		t := w.tasks[i]
		if t.Msg.Kind != "metadata" || t.Reply == nil || t.Reply.Kind != RKMetadata || t.Reply.Status != 200 {
			continue
		}
		if hostKeyOf(t.Msg, &w.cfg.IDP) != hostKey {
			continue
		}
		if mv := viewMetadata(t.Reply.Doc); mv != nil {
			return t, mv
		}
	}
	return nil, nil
}

func (w *World) resolveProbe(m *MsgSpec) *MsgSpec {
	mt, mv := w.latestMetadata(hostKeyOf(m, &w.cfg.IDP))
	if mv == nil {
		return nil
	}
	// the SP fetched the document from path P and read entityID E: whatever precedes P in E is the issuer prefix
	mdPath := mt.Sent.Path
	if !strings.HasSuffix(mv.EntityID, mdPath) {
		w.probe("probe_entityid_not_fetch_path")
		return nil
	}
	prefix := strings.TrimSuffix(mv.EntityID, mdPath)
	c := *m
	c.Probe = true
	loc := ""
	switch m.ProbeEP {
	case "sso":
		c.Kind = "sso"
		if c.Binding != "post" {
			c.Binding = "redirect"
		}
		loc = mv.SSO[map[string]string{"post": BindPost, "redirect": BindRedirect}[c.Binding]]
	case "slo":
		c.Kind = "slo"
		if c.Binding != "post" {
			c.Binding = "redirect"
		}
		loc = mv.SLO[map[string]string{"post": BindPost, "redirect": BindRedirect}[c.Binding]]
		c.NameID = "probe@example.org"
	case "attr":
		c.Kind, c.Binding = "attrq", "soap"
		loc = mv.Attr
	}
	if loc == "" {
		w.probe("probe_location_not_advertised")
		return nil
	}
	if !strings.HasPrefix(loc, prefix+"/") {
		w.probe("probe_location_external")
		return nil // configured by external URL: no statement about routing
	}
	c.PathOverride = strings.TrimPrefix(loc, prefix)
	c.DestMode, c.DestLit = "literal", loc
	if c.ID == "" {
		c.ID = fmt.Sprintf("_probe%d", len(w.tasks))
	}
	sp := w.spNode(m.SP)
	if !c.Unsigned && c.Kind == "sso" && sp.Cfg.HasCert && (isXSTrue(mv.WantSigned) || isXSTrue(sp.Cfg.AuthnRequestsSigned)) {
		c.Sign = "rsa-sha256"
	}
	return &c
}

func oracleC11(r *Result) {
	w := r.World
	type hostInfo struct {
		entityIDs map[string]int
	}
	hosts := map[string]*hostInfo{}
	// pass 1: metadata documents
	for _, t := range r.Tasks {
		if t.Msg.Kind != "metadata" || t.Abandoned || t.Panic != "" || t.Reply == nil || writerFaultFired(t) || t.Reply.Status != 200 {
			continue
		}
		mv := viewMetadata(t.Reply.Doc)
		if t.Reply.Kind != RKMetadata || mv == nil {
			r.violate("C11 metadata-not-an-entitydescriptor", "C11:metadata:not-a-wellformed-entitydescriptor", "the served document is one well-formed EntityDescriptor",
				t.Reply.Kind+" "+t.Reply.DecodeErr, t.ID)
			continue
		}
		w.probe("metadata_checked")
		hk := hostKeyOf(t.Msg, &w.cfg.IDP)
		if hosts[hk] == nil {
			hosts[hk] = &hostInfo{entityIDs: map[string]int{}}
		}
		hosts[hk].entityIDs[mv.EntityID] = t.ID
		// the advertised signing certificate is the one of the key version this request saw
		if kv := lastKeyVer(t, "GetResponseSigningKey"); kv >= 0 {
			want := w.respKey(kv).CertB64
			if len(mv.SigningCert) == 0 {
				r.violate("C11 no-signing-keydescriptor", "C11:metadata:no-signing-keydescriptor", "a signing KeyDescriptor is advertised", "", t.ID)
			}
			for _, c := range mv.SigningCert {
				if c != want {
					r.violate("C11 advertised-certificate", "C11:metadata:advertised-certificate-is-not-the-response-signing-certificate",
						"the signing KeyDescriptor carries the certificate that verifies issued assertions (key version "+fmt.Sprint(kv)+")", abbreviate(c, 80), t.ID)
				}
			}
		}
	}
	// pass 2: everything else against what was served for the same host
	for _, t := range r.Tasks {
		if t.Abandoned || t.Panic != "" || t.Reply == nil || writerFaultFired(t) {
			continue
		}
		hk := hostKeyOf(t.Msg, &w.cfg.IDP)
		hi := hosts[hk]
		rep := t.Reply
		switch t.Msg.Kind {
		case "cert":
			if rep.Status != 200 || rep.Kind != RKPEM {
				continue
			}
			w.probe("certificate_endpoint_checked")
			blk, _ := pem.Decode(rep.Body)
			kv := lastKeyVer(t, "GetResponseSigningKey")
			if blk == nil || kv < 0 || !bytes.Equal(blk.Bytes, w.respKey(kv).CertDER) {
				r.violate("C11 certificate-endpoint", "C11:cert:served-certificate-is-not-the-response-signing-certificate",
					"the certificate endpoint serves the certificate that verifies issued assertions", abbreviate(string(rep.Body), 120), t.ID)
			}
		case "sso", "callback", "slo", "attrq":
			if rep.Msg != nil && !rep.Msg.HasIssuer && hi != nil && (rep.Msg.Kind == "Response" || rep.Msg.Kind == "LogoutResponse") {
				w.probe("issuer_compared_with_entityid")
				r.violate("C11 issuer-differs-from-entityid", "C11:"+t.Msg.Kind+":issuer-differs-from-served-entityid",
					"the Issuer of every protocol response equals the entityID served for the same request host", "no Issuer element", t.ID)
			}
			if rep.Msg != nil && rep.Msg.HasIssuer && hi != nil {
				w.probe("issuer_compared_with_entityid")
				for eid := range hi.entityIDs {
					if rep.Msg.Issuer != eid {
						r.violate("C11 issuer-differs-from-entityid", "C11:"+t.Msg.Kind+":issuer-differs-from-served-entityid",
							"the Issuer of every protocol response equals the entityID served for the same request host ("+eid+")", rep.Msg.Issuer, t.ID)
					}
				}
				for _, a := range rep.Msg.Assertions {
					if a.Issuer != "" {
						for eid := range hi.entityIDs {
							if a.Issuer != eid {
								r.violate("C11 issuer-differs-from-entityid", "C11:"+t.Msg.Kind+":assertion-issuer-differs-from-served-entityid",
									"the assertion Issuer equals the served entityID ("+eid+")", a.Issuer, t.ID)
							}
						}
					}
				}
			}
		}
		if t.Msg.Probe && len(storageFaults(t)) == 0 {
			w.probe("probe_" + t.Msg.ProbeEP)
			ok := false
			switch t.Msg.ProbeEP {
			case "sso":
				ok = (rep.Status == 303 && len(persisted(t)) == 1) || (rep.Msg != nil && rep.Msg.Kind == "Response")
			case "slo":
				ok = rep.Msg != nil && rep.Msg.Kind == "LogoutResponse"
			case "attr":
				ok = rep.Kind == RKSOAP || (rep.Status == 500 && bytes.HasPrefix(bytes.TrimSpace(rep.Body), []byte("failed to")))
			}
			if !ok {
				r.violate("C11 advertised-location-not-served", "C11:probe:"+t.Msg.ProbeEP+":advertised-location-does-not-reach-its-handler",
					"a request to the advertised "+t.Msg.ProbeEP+" location (mapped onto this provider's routes) is handled by the "+t.Msg.ProbeEP+" handler",
					fmt.Sprintf("path %s → %s", t.Sent.Path, replySummary(t)), t.ID)
			}
		}
		// WantAuthnRequestsSigned advertised ⇔ unsigned requests refused
		// (a request that met a storage fault is still judged in one direction: refusing it is always fine, accepting it unsigned
		// while "true" is advertised is not — a fault must not switch the requirement off)
		if t.Msg.Kind == "sso" && t.Sent != nil && !t.Sent.Signed && len(t.Msg.Tamper) == 0 && !bodyFaultFired(t) && !t.AdvDuring {
			faulted := len(storageFaults(t)) > 0
			rec := firstCall(t, "GetEntityByID")
			if rec == nil || rec.SPCfg == nil || rec.SPVer != t.Sent.SPVer || isXSTrue(rec.SPCfg.AuthnRequestsSigned) || !supportedOnly(rec.SPCfg) {
				continue
			}
			otherwiseConformant := t.Sent.Conformant || t.Sent.WhyNot == "unsigned although signing is required"
			if !otherwiseConformant {
				continue
			}
			_, mv := w.latestMetadataBefore(hk, t.ID)
			if mv == nil {
				continue
			}
			w.probe("want_signed_compared")
			accepted := len(persisted(t)) == 1
			adv := mv.HasWant && isXSTrue(mv.WantSigned)
			if adv {
				w.probe("want_signed_advertised")
			}
			if adv && accepted {
				r.violate("C11 want-signed-not-enforced", "C11:sso:wantauthnrequestssigned-advertised-but-unsigned-accepted",
					"WantAuthnRequestsSigned is advertised as true exactly when unsigned requests are refused", fmt.Sprintf("advertised %q, unsigned request accepted", mv.WantSigned), t.ID)
			}
			if !adv && !accepted && !faulted {
				r.violate("C11 want-signed-not-advertised", "C11:sso:unsigned-refused-but-wantauthnrequestssigned-not-advertised",
					"WantAuthnRequestsSigned is advertised as true exactly when unsigned requests are refused", fmt.Sprintf("advertised %q (present=%v), unsigned conformant request refused: %s", mv.WantSigned, mv.HasWant, replySummary(t)), t.ID)
			}
		}
	}
}

func (w *World) latestMetadataBefore(hostKey string, taskID int) (*Task, *MetaView) {
	for i := len(w.tasks) - 1; i >= 0; i-- {
		t := w.tasks[i]
		if t.Msg.Kind != "metadata" || t.Reply == nil || t.Reply.Kind != RKMetadata || t.Reply.Status != 200 || hostKeyOf(t.Msg, &w.cfg.IDP) != hostKey {
			continue
		}
		if mv := viewMetadata(t.Reply.Doc); mv != nil {
			return t, mv
		}
	}
	return nil, nil
}

func (g G) planC11() *Plan {
	p := &Plan{Format: 1, Property: "C11", Mode: "serial", Family: "metadata-bootstrap"}
	p.World = g.drawWorld(worldOpts{maxSPs: 2, maxUsers: 2, maxReplicas: 2, hardPct: 10, issuerVariety: true, endpointVariety: true, metaVariety: true, signReqVariety: true,
		timeFormatVariety: true, parkVariety: true, noCertPct: 10})
	p.World.IDP.ExpiredRespCert = g.chance("expiredRespCert", 15)
	fp := []int{0, 0, 0, 10}[g.intn("faultPct", 4)]
	nh := g.rng("nhosts", 1, 3)
	n := g.rng("nsteps", 4, 30)
	nsp := len(p.World.SPs)
	// every host is bootstrapped first
	for h := 0; h < nh; h++ {
		m := &MsgSpec{Kind: "metadata"}
		g.drawHost(fmt.Sprintf("boot%d", h), &p.World.IDP, h, m)
		m.TLS = g.chance(fmt.Sprintf("boot%d.tls", h), 35)
		p.Steps = append(p.Steps, Step{K: "send", Msg: m}, Step{K: "finish", Pick: 99})
	}
	p.World.Presessions = append(p.World.Presessions, Preseed{SP: 0, AuthRequestID: "_pre" + sessionMarker(900), RelayState: "r", ACS: p.World.SPs[0].ACS[0].URL, Binding: BindPost, Done: true})
	for i := 0; i < n; i++ {
		lab := fmt.Sprintf("s%d", i)
		var m *MsgSpec
		switch g.weighted(lab+".k", 14, 10, 10, 10, 8, 12, 8, 8, 4, 3, 13, 3) {
		case 11:
			// the clock moves between bootstrap and use (seconds … years): whatever the provider remembers must not outlive its truth
			p.Steps = append(p.Steps, Step{K: "advance", Ns: g.drawAdvance(lab+".adv", nil)})
			continue
		case 0:
			m = &MsgSpec{Kind: "probe", ProbeEP: "sso", SP: g.intn(lab+".sp", nsp), Binding: g.drawBinding(lab + ".b"), Style: g.drawStyle(lab + ".st")}
		case 1:
			m = &MsgSpec{Kind: "probe", ProbeEP: "slo", SP: g.intn(lab+".sp", nsp), Binding: "post", Style: g.drawStyle(lab + ".st")}
		case 2:
			m = &MsgSpec{Kind: "probe", ProbeEP: "attr", SP: g.intn(lab+".sp", nsp), Style: g.drawStyle(lab + ".st")}
			if g.chance(lab+".subj", 30) {
				m.SubjMode = g.pick(lab+".subjm", "unknown", "unknown", "absent")
			}
		case 3:
			m = &MsgSpec{Kind: "probe", ProbeEP: "sso", SP: g.intn(lab+".sp", nsp), Binding: g.drawBinding(lab + ".b"), Unsigned: true}
		case 4:
			m = &MsgSpec{Kind: "metadata"}
		case 5:
			m = &MsgSpec{Kind: "cert"}
		case 6:
			// also callbacks that fail early: unknown / empty id, a request deleted meanwhile
			m = &MsgSpec{Kind: "callback", Session: g.intn(lab+".sess", 4), IDMode: g.pick(lab+".idmode", "session", "session", "session", "unknown", "empty")}
			if g.chance(lab+".del", 15) {
				p.Steps = append(p.Steps, Step{K: "mutate", Mut: "deleteRequest", A: m.Session})
			}
		case 7:
			m = g.drawSSO(lab+".sso", &p.World, g.intn(lab+".sp", nsp))
			if g.chance(lab+".unsigned", 60) {
				m.Sign = ""
			}
			if g.chance(lab+".badform", 15) {
				// a query the form parser refuses (broken percent escape): the refusal still has to carry the published issuer
				m.Binding, m.Extra = "redirect", []string{g.pick(lab+".badformv", "x=%zz", "%%", "x=%", "RelayState=%G1")}
			}
		case 8:
			p.Steps = append(p.Steps, Step{K: "mutate", Mut: "rotateKey"})
			continue
		case 9:
			p.Steps = append(p.Steps, Step{K: "mutate", Mut: "complete", A: g.intn(lab+".sess", 4), B: g.intn(lab+".u", 2)})
			continue
		case 10:
			p.Steps = append(p.Steps, Step{K: "resume", Pick: g.intn(lab+".pick", 6)})
			continue
		}
		g.drawHost(lab+".host", &p.World.IDP, g.intn(lab+".hosti", nh), m)
		m.Replica = g.intn(lab+".rep", 2)
		m.TLS = g.chance(lab+".tls", 35)
		if fp > 0 && g.chance(lab+".fa", fp) {
			// an error reply still has to carry the published issuer
			m.FaultAt, m.FaultKind = g.rng(lab+".fan", 1, 4), g.pick(lab+".fak", "err", "err", "nil_record", "empty_cert", "cert_without_key", "key_without_cert", "err_canceled")
		}
		p.Steps = append(p.Steps, Step{K: "send", Msg: m})
		if g.chance(lab+".auto", 60) {
			p.Steps = append(p.Steps, Step{K: "finish", Pick: 99})
		}
	}
	return p
}
