package sim

// Shadow re-execution: the reference model for "each reply is determined solely by its own request and the storage records
// it names" (C15). When a request has finished and nothing it could depend on has moved since it was sent — no storage
// mutation, no clock advance, no fault, no cancellation — the very same request bytes are served once more, at the same
// simulated instant, by a provider instance built freshly from the same configuration (no history, no neighbours), against
// the same storage contents (read without parking, written nowhere). The two replies must agree modulo message IDs,
// signature values and the order of custom attributes. A reply that differs depends on something besides its request and
// the records it names: an earlier request on the same instance (cache, memo, pool with stale fields) or a concurrent one
// (shared in-flight lookup, shared buffer).

import (
	"bytes"
	"context"
	"fmt"
	"net/http"
	"net/http/httptest"
	"regexp"
	"runtime/debug"
	"strings"

	"github.com/google/uuid"
)

type shadowKey struct{}

// shadowCtx marks storage calls made on behalf of a shadow execution.
type shadowCtx struct {
	persistID string   // the id the original request's persist call returned ("" when it persisted nothing)
	calls     []string // op(args) of mutating calls, for comparison
}

func shadowFrom(ctx context.Context) *shadowCtx {
	s, _ := ctx.Value(shadowKey{}).(*shadowCtx)
	return s
}

// shadowEligible: may the reply of t be compared with a re-execution right now?
func (w *World) shadowEligible(t *Task) (bool, string) {
	switch {
	case !w.cfg.Shadow:
		return false, ""
	case t.Abandoned, t.Cancelled, t.Panic != "", t.Sent == nil, t.Msg.DeadlineNs > 0, t.Msg.WriterFault:
		return false, "disturbed"
	case len(t.FaultFired) > 0:
		for _, f := range t.FaultFired {
			if f != "body_short_reads" && f != "body_split" {
				return false, "fault"
			}
		}
	}
	if t.Msg.BodyFault != "" && !benignBody(t.Msg.BodyFault) {
		return false, "fault"
	}
	if t.AdvDuring || !t.TInvoke.Equal(t.TReturn) || !t.TReturn.Equal(w.now()) {
		return false, "clock moved"
	}
	if t.Dep0 != w.depStamp(t) {
		return false, "storage changed"
	}
	if w.replicas[t.Replica].Gen != t.RepGen {
		return false, "replica restarted"
	}
	return true, ""
}

var (
	reIDAttr     = regexp.MustCompile(`\b(ID|validUntil|IssueInstant|NotBefore|NotOnOrAfter|AuthnInstant)="[^"]*"`)
	reSigElement = regexp.MustCompile(`(?s)<([A-Za-z0-9_]+:)?Signature[ >].*?</([A-Za-z0-9_]+:)?Signature>`)
)

// replyFingerprint: what of a reply has to be the same for the same request against the same records.
func replyFingerprint(rep *Reply, panicFunc string) string {
	if panicFunc != "" {
		return "panic in " + panicFunc
	}
	t := &Task{Reply: rep}
	s := replySummary(t)
	switch rep.Kind {
	case RKMetadata:
		b := reSigElement.ReplaceAll(rep.Body, nil)
		b = reIDAttr.ReplaceAll(b, []byte(`$1=""`))
		s += " metadata=" + string(b)
	case RKPEM, RKOther, RKJSON:
		s += " body=" + abbreviate(string(rep.Body), 4000)
	}
	if rep.Form != nil {
		s += fmt.Sprintf(" form{action=%q method=%q fields=%d}", rep.Form.Action, rep.Form.Method, len(rep.Form.Fields))
	}
	s += " ct=" + rep.Header.Get("Content-Type")
	return s
}

// shadowWriter records a reply exactly like RecWriter does (no content sniffing), without parking or faults.
type shadowWriter struct {
	hdr, snapHdr http.Header
	status       int
	wroteHeader  bool
	body         bytes.Buffer
}

func (w *shadowWriter) Header() http.Header { return w.hdr }
func (w *shadowWriter) WriteHeader(code int) {
	if w.wroteHeader {
		return
	}
	w.wroteHeader, w.status, w.snapHdr = true, code, w.hdr.Clone()
}
func (w *shadowWriter) Write(b []byte) (int, error) {
	if !w.wroteHeader {
		w.WriteHeader(http.StatusOK)
	}
	return w.body.Write(b)
}

// runShadow serves t's request bytes again on a fresh provider instance and compares.
func (w *World) runShadow(t *Task) {
	ok, why := w.shadowEligible(t)
	if !ok {
		if why != "" {
			w.probe("shadow_skipped_" + strings.ReplaceAll(why, " ", "_"))
		}
		return
	}
	prov, err := buildProvider(&w.cfg.IDP, &simStorage{w: w})
	if err != nil {
		return
	}
	sc := &shadowCtx{}
	for _, c := range persisted(t) {
		sc.persistID = c.Ret
	}
	s := t.Sent
	target := s.Path
	if target == "" || target[0] != '/' {
		target = "/" + target
	}
	if s.RawQuery != "" {
		target += "?" + s.RawQuery
	}
	var req *http.Request
	func() {
		defer func() { recover() }()
		if s.Body != nil || s.Method == "POST" {
			req = httptest.NewRequest(s.Method, "http://"+safeHost(s.Host)+target, bytes.NewReader(s.Body))
			req.ContentLength = int64(len(s.Body))
		} else {
			req = httptest.NewRequest(s.Method, "http://"+safeHost(s.Host)+target, nil)
		}
	}()
	if req == nil {
		return
	}
	req.Host = s.Host
	req.RequestURI = target
	for k, v := range s.Header {
		req.Header[k] = v
	}
	if s.ContentType != "" {
		req.Header.Set("Content-Type", s.ContentType)
	}
	req = req.WithContext(context.WithValue(req.Context(), shadowKey{}, sc))
	rec := &shadowWriter{hdr: http.Header{}}
	wrote := false
	panicFunc := ""
	done := make(chan struct{})
	// message ids of the shadow come from a stream of their own so that the run's id sequence is what it is without shadows
	w.mu.Lock()
	w.shadowRunning++
	w.inShadow = true
	w.mu.Unlock()
	if !w.cfg.RealUUID {
		uuid.SetRand(w.shadowUUID)
	}
	h := prov.HttpHandler()
	go func() {
		defer func() {
			if r := recover(); r != nil {
				panicFunc = firstRepoFunc(string(debug.Stack()))
				if panicFunc == "" {
					panicFunc = fmt.Sprint(r)
				}
			}
			w.mu.Lock()
			w.shadowRunning--
			w.mu.Unlock()
			close(done)
		}()
		h.ServeHTTP(rec, req)
		wrote = true
	}()
	w.settle()
	if !w.cfg.RealUUID {
		uuid.SetRand(w.uuidSrc)
	}
	w.mu.Lock()
	w.inShadow = false
	w.mu.Unlock()
	select {
	case <-done:
	default:
		// blocked inside the library on something a parked request holds (a package-level lock, an in-flight lookup): no
		// verdict; the goroutine ends when its holder moves on and its result is dropped
		w.probe("shadow_blocked_inside_library")
		return
	}
	_ = wrote
	status, hdr := rec.status, rec.snapHdr
	if !rec.wroteHeader {
		status, hdr = 200, rec.hdr // like finalizeTask: net/http sends 200 when a handler returns without writing
	}
	srep := DecodeReply(status, hdr, rec.body.Bytes())
	a := replyFingerprint(t.Reply, "")
	b := replyFingerprint(srep, panicFunc)
	var pa []string
	for _, c := range persisted(t) {
		pa = append(pa, "CreateAuthRequest("+strings.Join(c.Args, ",")+")")
	}
	a += " persists=" + strings.Join(pa, ";")
	b += " persists=" + strings.Join(sc.calls, ";")
	w.probe("shadow_compared")
	w.probe("shadow_compared_" + t.Msg.Kind)
	if a != b {
		w.mu.Lock()
		w.Violations = append(w.Violations, ViolationRec{Rule: "C15 reply-depends-on-history-or-neighbours", Key: "C15:isolation:" + t.Msg.Kind + ":reply-differs-from-fresh-instance",
			Expected: "each reply is determined solely by its own request and the storage records it names: the same request, served at the same instant by a fresh provider instance over the same storage contents, gets the same reply (modulo ids and signature values)",
			Observed: abbreviate("this instance: "+a+"\nfresh instance: "+b, 1600), Task: t.ID})
		w.mu.Unlock()
	}
}
