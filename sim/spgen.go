package sim

// Oracle 5: the conformant service provider. String-template serialisers
// (never /repo's structs) for SP metadata, AuthnRequest, LogoutRequest and
// SOAP AttributeQuery, with the serialisation freedoms the standards give.

import (
	"crypto/tls"
	"encoding/base64"
	"fmt"
	"io"
	"net/http"
	"net/http/httptest"
	"net/url"
	"strings"
	"time"
)

const (
	BindPost       = "urn:oasis:names:tc:SAML:2.0:bindings:HTTP-POST"
	BindRedirect   = "urn:oasis:names:tc:SAML:2.0:bindings:HTTP-Redirect"
	BindArtifact   = "urn:oasis:names:tc:SAML:2.0:bindings:HTTP-Artifact"
	BindPAOS       = "urn:oasis:names:tc:SAML:2.0:bindings:PAOS"
	BindSimpleSign = "urn:oasis:names:tc:SAML:2.0:bindings:HTTP-POST-SimpleSign"
	BindSOAP       = "urn:oasis:names:tc:SAML:2.0:bindings:SOAP"
	EncDeflate     = "urn:oasis:names:tc:SAML:2.0:bindings:URL-Encoding:DEFLATE"
	StatusOK       = "urn:oasis:names:tc:SAML:2.0:status:Success"
)

func xa(s string) string { var sb strings.Builder; escAttr(&sb, s); return sb.String() }
func xt(s string) string { var sb strings.Builder; escText(&sb, s); return sb.String() }

// xtf renders element text in one of the lexical forms XML offers for the same character data (all of them are
// the same string to a conformant receiver): plain, a CDATA section, numeric character references, text interrupted
// by a comment, a CDATA section followed by plain text.
func xtf(s string, form int) string {
	rs := []rune(s)
	switch form {
	case 1:
		if !strings.Contains(s, "]]>") && s != "" {
			return "<![CDATA[" + s + "]]>"
		}
	case 2:
		var sb strings.Builder
		for i, r := range rs {
			if r == ':' || r == '/' && i%2 == 0 || r > 0x7e || r == '@' {
				if i%3 == 0 {
					fmt.Fprintf(&sb, "&#%d;", r)
				} else {
					fmt.Fprintf(&sb, "&#x%X;", r)
				}
				continue
			}
			sb.WriteString(xt(string(r)))
		}
		return sb.String()
	case 3:
		if len(rs) >= 2 {
			h := len(rs) / 2
			return xt(string(rs[:h])) + "<!-- split -->" + xt(string(rs[h:]))
		}
	case 4:
		if len(rs) >= 2 && !strings.Contains(s, "]]>") {
			h := len(rs) / 3
			if h == 0 {
				h = 1
			}
			return "<![CDATA[" + string(rs[:h]) + "]]>" + xt(string(rs[h:]))
		}
	}
	return xt(s)
}

// BuildSPMetadata renders the SP's EntityDescriptor.
func BuildSPMetadata(c *SPCfg) string {
	mdp, dsp := "md:", "ds:"
	rootDecl := ` xmlns:md="` + NSMD + `" xmlns:ds="` + NSDS + `"`
	switch c.MDPrefix {
	case "default":
		mdp = ""
		rootDecl = ` xmlns="` + NSMD + `" xmlns:ds="` + NSDS + `"`
	case "exotic":
		mdp, dsp = "m0:", "sig_1:"
		rootDecl = ` xmlns:m0="` + NSMD + `" xmlns:sig_1="` + NSDS + `"`
	}
	var sb strings.Builder
	sb.WriteString(`<?xml version="1.0" encoding="UTF-8"?>` + "\n")
	vu := ""
	if c.ValidUntil != "" {
		vu = ` validUntil="` + xa(c.ValidUntil) + `"`
	}
	sb.WriteString("<" + mdp + "EntityDescriptor" + rootDecl + ` entityID="` + xa(c.Entity) + `"` + vu + `>` + "\n")
	sb.WriteString("  <" + mdp + "SPSSODescriptor")
	if c.AuthnRequestsSigned != "" {
		sb.WriteString(` AuthnRequestsSigned="` + xa(c.AuthnRequestsSigned) + `"`)
	}
	sb.WriteString(` WantAssertionsSigned="true" protocolSupportEnumeration="urn:oasis:names:tc:SAML:2.0:protocol">` + "\n")
	encKD := ""
	if c.EncKey > 0 {
		encKD = "    <" + mdp + `KeyDescriptor use="encryption"><` + dsp + "KeyInfo><" + dsp + "X509Data><" + dsp + "X509Certificate>" + Keys[mod(c.EncKey, NumKeys)].CertB64 +
			"</" + dsp + "X509Certificate></" + dsp + "X509Data></" + dsp + "KeyInfo></" + mdp + "KeyDescriptor>\n"
	}
	if c.EncFirst {
		sb.WriteString(encKD)
	}
	if c.HasCert {
		cert := Keys[mod(c.Key, NumKeys)].CertB64
		if c.CertWrap {
			cert = "\n" + wrapAt(cert, 64) + "\n"
		}
		use := ""
		if c.CertUse != "" {
			use = ` use="` + xa(c.CertUse) + `"`
		}
		sb.WriteString("    <" + mdp + "KeyDescriptor" + use + "><" + dsp + "KeyInfo><" + dsp + "X509Data><" + dsp + "X509Certificate>" + cert +
			"</" + dsp + "X509Certificate></" + dsp + "X509Data></" + dsp + "KeyInfo></" + mdp + "KeyDescriptor>\n")
	}
	if !c.EncFirst {
		sb.WriteString(encKD)
	}
	if c.DecoyNS {
		// same local names, another namespace: not endpoints of this SP as far as the SAML metadata schema is concerned
		sb.WriteString(`    <vx:SingleLogoutService xmlns:vx="urn:example:vendor:ext" Binding="` + BindPost + `" Location="https://evil.example/vendor-slo"/>` + "\n")
		sb.WriteString(`    <vx:AssertionConsumerService xmlns:vx="urn:example:vendor:ext" Binding="` + BindPost + `" Location="https://evil.example/vendor-acs" index="0" isDefault="true"/>` + "\n")
	}
	for _, s := range c.SLO {
		rl := ""
		if s.RespLoc != "" {
			rl = ` ResponseLocation="` + xa(s.RespLoc) + `"`
		}
		sb.WriteString("    <" + mdp + `SingleLogoutService Binding="` + xa(s.Binding) + `" Location="` + xa(s.URL) + `"` + rl + `/>` + "\n")
	}
	sb.WriteString("    <" + mdp + "NameIDFormat>urn:oasis:names:tc:SAML:1.1:nameid-format:emailAddress</" + mdp + "NameIDFormat>\n")
	for _, a := range c.ACS {
		sb.WriteString("    <" + mdp + `AssertionConsumerService Binding="` + xa(a.Binding) + `" Location="` + xa(a.URL) + `" index="` + xa(a.Index) + `"`)
		if a.IsDefault != "" {
			sb.WriteString(` isDefault="` + xa(a.IsDefault) + `"`)
		}
		if a.RespLoc != "" {
			sb.WriteString(` ResponseLocation="` + xa(a.RespLoc) + `"`)
		}
		sb.WriteString("/>\n")
	}
	sb.WriteString("  </" + mdp + "SPSSODescriptor>\n</" + mdp + "EntityDescriptor>\n")
	return sb.String()
}

// ---------------------------------------------------------------------------

type nsStyle struct {
	p, a         string // prefixes (with colon) for protocol and assertion namespace; "" = default namespace
	rootDecl     string
	aDeclOnChild bool // assertion namespace declared on each assertion-namespace child instead of the root
	aDecl        string
}

func styleNS(prefix int) nsStyle {
	switch mod(prefix, 4) {
	case 1:
		return nsStyle{p: "", a: "", rootDecl: ` xmlns="` + NSP + `"`, aDeclOnChild: true, aDecl: ` xmlns="` + NSA + `"`}
	case 2:
		return nsStyle{p: "p0:", a: "a_1:", rootDecl: ` xmlns:p0="` + NSP + `" xmlns:a_1="` + NSA + `"`}
	case 3:
		return nsStyle{p: "saml2p:", a: "saml2:", rootDecl: ` xmlns:saml2p="` + NSP + `"`, aDeclOnChild: true, aDecl: ` xmlns:saml2="` + NSA + `"`}
	}
	return nsStyle{p: "samlp:", a: "saml:", rootDecl: ` xmlns:samlp="` + NSP + `" xmlns:saml="` + NSA + `"`}
}

func (n nsStyle) ad() string {
	if n.aDeclOnChild {
		return n.aDecl
	}
	return ""
}

type kv struct{ k, v string }

// permute reorders attributes deterministically from a seed.
func permute(in []kv, seed int) []kv {
	out := append([]kv(nil), in...)
	x := uint32(seed)*2654435761 + 12345
	for i := len(out) - 1; i > 0; i-- {
		x = x*1664525 + 1013904223
		j := int(x>>8) % (i + 1)
		out[i], out[j] = out[j], out[i]
	}
	if seed == 0 {
		return in
	}
	return out
}

func renderAttrs(as []kv) string {
	var sb strings.Builder
	for _, a := range as {
		sb.WriteString(" " + a.k + `="` + xa(a.v) + `"`)
	}
	return sb.String()
}

// trailer: what a serialiser may legally put after the end tag of the document element (XML 1.0 production [1]: Misc*).
func trailer(st *Style) string {
	return []string{"", "\n", "\r\n", "\n<!-- end -->\n"}[mod(st.Trailer, 4)]
}

func fmtTime(t time.Time, frac int) string {
	t = t.UTC()
	s := t.Format("2006-01-02T15:04:05")
	if frac > 0 {
		if frac > 9 {
			frac = 9
		}
		ns := fmt.Sprintf("%09d", t.Nanosecond())
		s += "." + ns[:frac]
	}
	return s + "Z"
}

// truncFrac is the instant fmtTime actually writes for t with frac fractional digits.
func truncFrac(t time.Time, frac int) time.Time {
	if frac < 0 {
		frac = 0
	}
	if frac > 9 {
		frac = 9
	}
	unit := int64(1)
	for i := frac; i < 9; i++ {
		unit *= 10
	}
	ns := int64(t.Nanosecond())
	return t.Add(-time.Duration(ns % unit))
}

func indentOf(st *Style) (nl, in string) {
	switch mod(st.Indent, 3) {
	case 1:
		return "\n", "  "
	case 2:
		return "\r\n", "\t"
	}
	return "", ""
}

const (
	optNameIDPolicy = 1 << iota
	optReqAuthnCtx
	optForceAuthn
	optIsPassive
	optProviderName
	optConsent
	optScoping
	optExtensions
	optComment
	optIssuerFormat
	optSubject
)

type reqFields struct {
	ID, Version, IssueInstant string
	NoID, NoVersion           bool
	Destination               string
	HasDestination            bool
	Issuer                    string
	IssuerAbsent              bool
	ProtoBind, ACSURL, ACSIdx string
	HasConditions             bool
	NotBefore, NotOnOrAfter   string
}

func buildAuthnRequestXML(f *reqFields, st *Style) string {
	ns := styleNS(st.Prefix)
	nl, in := indentOf(st)
	attrs := []kv{}
	if !f.NoID {
		attrs = append(attrs, kv{"ID", f.ID})
	}
	if !f.NoVersion {
		attrs = append(attrs, kv{"Version", f.Version})
	}
	attrs = append(attrs, kv{"IssueInstant", f.IssueInstant})
	if f.HasDestination {
		attrs = append(attrs, kv{"Destination", f.Destination})
	}
	if f.ProtoBind != "" {
		attrs = append(attrs, kv{"ProtocolBinding", f.ProtoBind})
	}
	if f.ACSURL != "" {
		attrs = append(attrs, kv{"AssertionConsumerServiceURL", f.ACSURL})
	}
	if f.ACSIdx != "" {
		attrs = append(attrs, kv{"AssertionConsumerServiceIndex", f.ACSIdx})
	}
	if st.Optional&optForceAuthn != 0 {
		attrs = append(attrs, kv{"ForceAuthn", "false"})
	}
	if st.Optional&optIsPassive != 0 {
		attrs = append(attrs, kv{"IsPassive", "0"})
	}
	if st.Optional&optProviderName != 0 {
		attrs = append(attrs, kv{"ProviderName", "Example SP & Co"})
	}
	if st.Optional&optConsent != 0 {
		attrs = append(attrs, kv{"Consent", "urn:oasis:names:tc:SAML:2.0:consent:unspecified"})
	}
	var sb strings.Builder
	if st.XMLDecl {
		sb.WriteString(`<?xml version="1.0" encoding="UTF-8"?>` + nl)
	}
	sb.WriteString("<" + ns.p + "AuthnRequest" + ns.rootDecl + renderAttrs(permute(attrs, st.AttrOrder)) + ">")
	if st.Optional&optComment != 0 {
		sb.WriteString(nl + in + "<!-- generated by a conformant SP -->")
	}
	if !f.IssuerAbsent {
		fa := ""
		if st.Optional&optIssuerFormat != 0 {
			fa = ` Format="urn:oasis:names:tc:SAML:2.0:nameid-format:entity"`
		}
		sb.WriteString(nl + in + "<" + ns.a + "Issuer" + ns.ad() + fa + ">" + xtf(f.Issuer, st.TextForm) + "</" + ns.a + "Issuer>")
	}
	sb.WriteString(sigMarker)
	if st.Optional&optExtensions != 0 {
		sb.WriteString(nl + in + "<" + ns.p + `Extensions><x:hint xmlns:x="urn:example:ext" v="1"/></` + ns.p + "Extensions>")
	}
	if st.Optional&optSubject != 0 {
		sb.WriteString(nl + in + "<" + ns.a + "Subject" + ns.ad() + "><" + ns.a + `NameID Format="urn:oasis:names:tc:SAML:1.1:nameid-format:emailAddress">hint@example.org</` + ns.a + "NameID></" + ns.a + "Subject>")
	}
	if st.Optional&optNameIDPolicy != 0 {
		sb.WriteString(nl + in + "<" + ns.p + `NameIDPolicy Format="urn:oasis:names:tc:SAML:1.1:nameid-format:emailAddress" AllowCreate="true"`)
		if st.SelfClose {
			sb.WriteString("/>")
		} else {
			sb.WriteString("></" + ns.p + "NameIDPolicy>")
		}
	}
	if f.HasConditions {
		ca := []kv{}
		if f.NotBefore != "" {
			ca = append(ca, kv{"NotBefore", f.NotBefore})
		}
		if f.NotOnOrAfter != "" {
			ca = append(ca, kv{"NotOnOrAfter", f.NotOnOrAfter})
		}
		sb.WriteString(nl + in + "<" + ns.a + "Conditions" + ns.ad() + renderAttrs(permute(ca, st.AttrOrder)))
		if st.SelfClose {
			sb.WriteString("/>")
		} else {
			sb.WriteString("></" + ns.a + "Conditions>")
		}
	}
	if st.Optional&optReqAuthnCtx != 0 {
		sb.WriteString(nl + in + "<" + ns.p + `RequestedAuthnContext Comparison="exact">` + nl + in + in + "<" + ns.a + "AuthnContextClassRef" + ns.ad() +
			">urn:oasis:names:tc:SAML:2.0:ac:classes:PasswordProtectedTransport</" + ns.a + "AuthnContextClassRef>" + nl + in + "</" + ns.p + "RequestedAuthnContext>")
	}
	if st.Optional&optScoping != 0 {
		sb.WriteString(nl + in + "<" + ns.p + `Scoping ProxyCount="1"><` + ns.p + "RequesterID>https://proxy.example/sp</" + ns.p + "RequesterID></" + ns.p + "Scoping>")
	}
	sb.WriteString(nl + "</" + ns.p + "AuthnRequest>" + trailer(st))
	return sb.String()
}

type logoutFields struct {
	reqFields
	NameID       string
	NoNameID     bool
	SessionIndex []string
	HasNOOA      bool
	Reason       bool
}

func buildLogoutRequestXML(f *logoutFields, st *Style) string {
	ns := styleNS(st.Prefix)
	nl, in := indentOf(st)
	attrs := []kv{}
	if !f.NoID {
		attrs = append(attrs, kv{"ID", f.ID})
	}
	if !f.NoVersion {
		attrs = append(attrs, kv{"Version", f.Version})
	}
	attrs = append(attrs, kv{"IssueInstant", f.IssueInstant})
	if f.HasDestination {
		attrs = append(attrs, kv{"Destination", f.Destination})
	}
	if f.HasNOOA {
		attrs = append(attrs, kv{"NotOnOrAfter", f.NotOnOrAfter})
	}
	if st.Optional&optConsent != 0 {
		attrs = append(attrs, kv{"Reason", "urn:oasis:names:tc:SAML:2.0:logout:user"})
	}
	var sb strings.Builder
	if st.XMLDecl {
		sb.WriteString(`<?xml version="1.0" encoding="UTF-8"?>` + nl)
	}
	sb.WriteString("<" + ns.p + "LogoutRequest" + ns.rootDecl + renderAttrs(permute(attrs, st.AttrOrder)) + ">")
	if !f.IssuerAbsent {
		sb.WriteString(nl + in + "<" + ns.a + "Issuer" + ns.ad() + ">" + xtf(f.Issuer, st.TextForm) + "</" + ns.a + "Issuer>")
	}
	sb.WriteString(sigMarker)
	if !f.NoNameID {
		sb.WriteString(nl + in + "<" + ns.a + "NameID" + ns.ad() + ` Format="urn:oasis:names:tc:SAML:1.1:nameid-format:emailAddress">` + xtf(f.NameID, st.TextForm) + "</" + ns.a + "NameID>")
	}
	for _, si := range f.SessionIndex {
		sb.WriteString(nl + in + "<" + ns.p + "SessionIndex>" + xt(si) + "</" + ns.p + "SessionIndex>")
	}
	sb.WriteString(nl + "</" + ns.p + "LogoutRequest>" + trailer(st))
	return sb.String()
}

type attrQueryFields struct {
	reqFields
	Subject     string
	NoSubject   bool
	NoNameID    bool
	Requested   []CustomAttrCfg
	NoQuery     bool // SOAP body without AttributeQuery
	SoapPrefix  int
	HeaderBlock bool
}

func buildAttributeQueryXML(f *attrQueryFields, st *Style) (envelopeOpen, query, envelopeClose string) {
	ns := styleNS(st.Prefix)
	nl, in := indentOf(st)
	attrs := []kv{}
	if !f.NoID {
		attrs = append(attrs, kv{"ID", f.ID})
	}
	if !f.NoVersion {
		attrs = append(attrs, kv{"Version", f.Version})
	}
	attrs = append(attrs, kv{"IssueInstant", f.IssueInstant})
	if f.HasDestination {
		attrs = append(attrs, kv{"Destination", f.Destination})
	}
	var sb strings.Builder
	sb.WriteString("<" + ns.p + "AttributeQuery" + ns.rootDecl + renderAttrs(permute(attrs, st.AttrOrder)) + ">")
	if !f.IssuerAbsent {
		sb.WriteString(nl + in + "<" + ns.a + "Issuer" + ns.ad() + ">" + xtf(f.Issuer, st.TextForm) + "</" + ns.a + "Issuer>")
	}
	sb.WriteString(sigMarker)
	if !f.NoSubject {
		sb.WriteString(nl + in + "<" + ns.a + "Subject" + ns.ad() + ">")
		if !f.NoNameID {
			sb.WriteString("<" + ns.a + `NameID Format="urn:oasis:names:tc:SAML:1.1:nameid-format:emailAddress">` + xtf(f.Subject, st.TextForm) + "</" + ns.a + "NameID>")
		}
		sb.WriteString("</" + ns.a + "Subject>")
	}
	for _, r := range f.Requested {
		sb.WriteString(nl + in + "<" + ns.a + "Attribute" + ns.ad() + ` Name="` + xa(r.Name) + `"`)
		if r.Format != "" {
			sb.WriteString(` NameFormat="` + xa(r.Format) + `"`)
		}
		if r.Friendly != "" {
			sb.WriteString(` FriendlyName="` + xa(r.Friendly) + `"`)
		}
		if len(r.Values) > 0 {
			// saml-core 3.3.2.3: the query may name the values it is interested in
			sb.WriteString(">")
			for _, v := range r.Values {
				sb.WriteString("<" + ns.a + "AttributeValue>" + xt(v) + "</" + ns.a + "AttributeValue>")
			}
			sb.WriteString("</" + ns.a + "Attribute>")
			continue
		}
		sb.WriteString("/>")
	}
	sb.WriteString(nl + "</" + ns.p + "AttributeQuery>")
	sp := "soap:"
	sdecl := ` xmlns:soap="` + NSSOAP + `"`
	switch mod(f.SoapPrefix, 3) {
	case 1:
		sp, sdecl = "SOAP-ENV:", ` xmlns:SOAP-ENV="`+NSSOAP+`"`
	case 2:
		sp, sdecl = "s11:", ` xmlns:s11="`+NSSOAP+`"`
	}
	open := ""
	if st.XMLDecl {
		open = `<?xml version="1.0" encoding="UTF-8"?>` + nl
	}
	open += "<" + sp + "Envelope" + sdecl + ">" + nl
	if f.HeaderBlock {
		open += "<" + sp + "Header/>" + nl
	}
	open += "<" + sp + "Body>" + nl
	closeS := nl + "</" + sp + "Body>" + nl + "</" + sp + "Envelope>" + trailer(st)
	q := sb.String()
	if f.NoQuery {
		q = ""
	}
	return open, q, closeS
}

// ---------------------------------------------------------------------------

// Sent records exactly what a simulated party put on the wire and what it knew when doing so.
type Sent struct {
	Summary     string
	Kind        string
	Method      string
	Path        string
	RawQuery    string
	Body        []byte
	ContentType string
	Host        string
	Header      http.Header

	XML        string              // protocol message as it left the sender (after tampering); "" when there is none
	XMLSigned  string              // the document the SP's signer produced (before tampering); "" when unsigned
	Params     map[string][]string // decoded parameters as a form parser would see them
	Relay      string
	HasRelay   bool
	SigAlgSent string
	ReqID      string
	IssuerSent string
	DestSent   string
	HasDest    bool

	SPTime       time.Time // SP clock when stamping
	SendTime     time.Time // bubble clock at delivery
	NotBefore    *time.Time
	NotOnOrAfter *time.Time
	IssueInstant *time.Time

	IdPIssuer  string // issuer in effect for this request (model)
	EntityID   string
	Conformant bool
	WhyNot     string
	Signed     bool
	SignedKey  int

	SPVer       int // registration version of the sending SP when the message was built
	Session     int // callback: session index addressed (-1 none)
	CallbackID  string
	CallbackIDs []string // every id value the request names (form and query may differ)
	SPIdx       int
}

func (w *World) spNode(i int) *SPNode {
	if i < 0 || len(w.sps) == 0 {
		return w.rogue
	}
	return w.sps[mod(i, len(w.sps))]
}

func sigAlgURI(s string) string {
	switch s {
	case "rsa-sha1":
		return AlgRSASHA1
	case "rsa-sha256":
		return AlgRSASHA256
	case "rsa-sha512":
		return AlgRSASHA512
	case "":
		return ""
	}
	return s
}

func hostFor(m *MsgSpec, c *IDPCfg) string {
	if m.Host != "" {
		return m.Host
	}
	if c.IssuerKind == "static" || c.IssuerKind == "" {
		if u, err := url.Parse(c.Issuer); err == nil && u.Host != "" {
			return u.Host
		}
	}
	return "idp.example"
}

func (w *World) requestHeaders(m *MsgSpec) http.Header {
	h := http.Header{}
	if m.Forwarded != "" {
		// several header lines (each proxy on the way appends its own): separated by a newline in the plan
		for _, line := range strings.Split(m.Forwarded, "\n") {
			h.Add("Forwarded", line)
		}
	}
	if m.XFHeader != "" {
		for i, n := range w.cfg.IDP.Headers {
			if m.XFWhich == 1 && i > 0 || m.XFWhich == 2 && i != 1 && len(w.cfg.IDP.Headers) > 1 {
				continue // this proxy sets one of the configured headers only
			}
			if i == 0 || m.XFWhich == 2 {
				h.Set(n, m.XFHeader)
			} else {
				// a header of lower priority names another host (what an inner proxy added): it must never win
				h.Set(n, "host=inner-proxy.cluster.internal")
			}
		}
	}
	return h
}

func (w *World) destination(m *MsgSpec, kind, issuer string) (string, bool) {
	adv := w.IDPModel.Location(kind, issuer)
	switch m.DestMode {
	case "", "advertised":
		return adv, true
	case "absent":
		return "", false
	case "other-endpoint":
		other := EPSLO
		if kind == EPSLO {
			other = EPSSO
		}
		if kind == EPAttr {
			other = EPSSO
		}
		return w.IDPModel.Location(other, issuer), true
	case "other-host":
		// the location this IdP advertises to requests that arrive under a different host
		h := hostMarker(7) + ".idp.example"
		if strings.HasPrefix(hostFor(m, &w.cfg.IDP), hostMarker(7)) {
			h = hostMarker(8) + ".idp.example"
		}
		for i := 0; i < 3; i++ {
			if cand := hostMarker(i) + ".idp.example"; !strings.Contains(issuer, cand) {
				h = cand
				break
			}
		}
		hdr := http.Header{}
		hdr.Set("Forwarded", "host="+h)
		for _, n := range w.cfg.IDP.Headers {
			hdr.Set(n, "host="+h)
		}
		return w.IDPModel.Location(kind, w.IDPModel.Issuer(h, hdr)), true
	case "foreign":
		return "https://evil.example/SSO", true
	case "double-slash":
		if i := strings.LastIndex(adv, "/"); i > 8 {
			return adv[:i] + "/" + adv[i:], true
		}
		return adv + "//", true
	case "query":
		return adv + "?x=1", true
	case "bare-query":
		return adv + "?", true
	case "fragment":
		return adv + "#sso", true
	case "userinfo":
		return strings.Replace(adv, "://", "://user@", 1), true
	case "pct":
		if i := strings.LastIndex(adv, "/"); i >= 0 && i+1 < len(adv) {
			return adv[:i+1] + fmt.Sprintf("%%%02X", adv[i+1]) + adv[i+2:], true
		}
		return adv + "%2F", true
	case "request-host":
		// what a client that dials the provider under another name would compose: the Host header it sends + the path it requests
		scheme := "https://"
		if w.cfg.IDP.Insecure {
			scheme = "http://"
		}
		return scheme + hostFor(m, &w.cfg.IDP) + w.IDPModel.Route(kind), true
	case "metadata-base":
		// the endpoint's path below the URL under which the metadata document is published (when it is published externally)
		if e := w.cfg.IDP.Metadata; e.Set && e.URL != "" {
			if base := strings.TrimSuffix(e.URL, "/"+strings.TrimPrefix(e.Path, "/")); base != e.URL {
				return base + w.IDPModel.Route(kind), true
			}
		}
		return "https://gateway.example" + w.IDPModel.Route(kind), true
	case "issuer-route":
		// issuer + the path the router serves: the advertised location unless the endpoint is published under an external URL
		return strings.TrimSuffix(issuer, "/") + w.IDPModel.Route(kind), true
	case "case":
		return strings.ToUpper(adv[:8]) + adv[8:], true
	case "upper-path":
		if i := strings.LastIndex(adv, "/"); i >= 0 {
			return adv[:i] + strings.ToUpper(adv[i:]), true
		}
		return adv, true
	case "slash":
		return adv + "/", true
	case "scheme":
		if strings.HasPrefix(adv, "https://") {
			return "http://" + adv[8:], true
		}
		return "https://" + strings.TrimPrefix(adv, "http://"), true
	case "empty":
		return "", true
	case "literal":
		return m.DestLit, true
	}
	return adv, true
}

func (w *World) issuerText(m *MsgSpec, sp *SPNode) (string, bool) {
	switch m.IssuerMode {
	case "", "own":
		return sp.Cfg.Entity, false
	case "absent":
		return "", true
	case "empty":
		return "", false
	case "other-sp":
		if len(w.sps) > 1 {
			return w.sps[mod(sp.Idx+1, len(w.sps))].Cfg.Entity, false
		}
		return w.rogue.Cfg.Entity, false
	case "rogue":
		return w.rogue.Cfg.Entity, false
	case "lookalike":
		return sp.Cfg.Entity + "/", false
	case "lookalike-case":
		return strings.ToUpper(sp.Cfg.Entity), false
	case "lookalike-space":
		return " " + sp.Cfg.Entity, false
	case "literal":
		return m.IssuerLit, false
	}
	return sp.Cfg.Entity, false
}

func (w *World) notConformant(s *Sent, why string) {
	if s.Conformant {
		s.Conformant = false
		s.WhyNot = why
	}
}

// BuildRequest turns a message specification into an HTTP request, at the current simulated instant.
func BuildRequest(w *World, t *Task, m *MsgSpec) (*http.Request, *Sent, error) {
	s := &Sent{Kind: m.Kind, Session: -1, Conformant: true, SPIdx: m.SP, Params: map[string][]string{}}
	s.Host = hostFor(m, &w.cfg.IDP)
	s.Header = w.requestHeaders(m)
	s.IdPIssuer = w.IDPModel.Issuer(s.Host, s.Header)
	s.EntityID = w.IDPModel.EntityID(s.IdPIssuer)
	sp := w.spNode(m.SP)
	s.SPVer = sp.Version
	if (m.BodyFault != "" && !benignBody(m.BodyFault)) || m.WriterFault {
		w.notConformant(s, "transport fault") // a body that arrives in small pieces is ordinary transport behaviour, not a fault
	}
	if len(m.Tamper) > 0 {
		w.notConformant(s, "tampered")
	}
	switch m.Kind {
	case "sso":
		if err := w.buildSSO(t, m, sp, s); err != nil {
			return nil, nil, err
		}
	case "slo":
		if err := w.buildSLO(t, m, sp, s); err != nil {
			return nil, nil, err
		}
	case "attrq":
		if err := w.buildAttrQ(t, m, sp, s); err != nil {
			return nil, nil, err
		}
	case "callback":
		w.buildCallback(m, s)
	case "metadata":
		s.Method, s.Path = "GET", w.IDPModel.Route(EPMetadata)
	case "cert":
		s.Method, s.Path = "GET", w.IDPModel.Route(EPCert)
	case "healthz":
		s.Method, s.Path = "GET", "/healthz"
	case "ready":
		s.Method, s.Path = "GET", "/ready"
		if m.Head {
			s.Method = "HEAD"
		}
	case "raw":
		s.Method, s.Path, s.RawQuery, s.Body, s.ContentType = m.Method, m.RawPath, m.RawQuery, []byte(m.RawBody), m.RawCT
		if s.Method == "" {
			s.Method = "GET"
		}
		w.notConformant(s, "raw")
	default:
		return nil, nil, fmt.Errorf("unknown message kind %q", m.Kind)
	}
	delay := m.DelayNs
	if m.DelayAnchor != "" {
		// deliver exactly at (instant written in the message) + DelayNs
		var anchor *time.Time
		switch m.DelayAnchor {
		case "notOnOrAfter":
			anchor = s.NotOnOrAfter
		case "notBefore":
			anchor = s.NotBefore
		case "issueInstant":
			anchor = s.IssueInstant
		}
		delay = 0
		if anchor != nil {
			written := truncFrac(*anchor, m.Style.Frac)
			delay = int64(written.Sub(time.Now())) + m.DelayNs
			w.probe("delivery_aimed_at_" + m.DelayAnchor)
		}
	}
	if delay > 0 && time.Now().Add(time.Duration(delay)).After(simClockLimit) {
		delay = 0 // the simulated clock stays inside the validity of the fixture certificates (see simClockLimit)
	}
	if delay > 0 && w.runningTasks() > 0 {
		// a request is blocked on a lock inside the library (see advance): the bubble clock cannot move now
		w.probe("clock_move_skipped_task_blocked_on_library_lock")
		delay = 0
	}
	if delay > 0 {
		infl := w.inflight()
		for _, x := range infl {
			x.AdvDuring = true
		}
		if len(infl) > 0 {
			w.fire("advance_while_parked")
		}
		time.Sleep(time.Duration(delay))
		w.fire("delay")
	}
	s.SendTime = time.Now()
	// a message delivered outside the window written in it is not a conformant request any more
	if s.NotBefore != nil && truncFrac(*s.NotBefore, m.Style.Frac).After(s.SendTime) {
		w.notConformant(s, "delivered before NotBefore")
	}
	if s.NotOnOrAfter != nil && !truncFrac(*s.NotOnOrAfter, m.Style.Frac).After(s.SendTime) {
		w.notConformant(s, "delivered at or after NotOnOrAfter")
	}
	if m.Kind == "slo" && s.IssueInstant != nil && truncFrac(*s.IssueInstant, m.Style.Frac).After(s.SendTime) {
		w.notConformant(s, "issued in the future")
	}
	target := s.Path
	if target == "" || target[0] != '/' {
		target = "/" + target
	}
	if s.RawQuery != "" {
		target += "?" + s.RawQuery
	}
	var body io.Reader
	var sb *simBody
	if s.Body != nil || s.Method == "POST" {
		sb = &simBody{task: t, data: s.Body, fault: m.BodyFault, faultOff: m.BodyOff}
		body = sb
	}
	var req *http.Request
	var err error
	func() {
		defer func() {
			if r := recover(); r != nil {
				err = fmt.Errorf("unbuildable request: %v", r)
			}
		}()
		req = httptest.NewRequest(s.Method, "http://"+safeHost(s.Host)+target, body)
	}()
	if err != nil {
		return nil, nil, err
	}
	req.Host = s.Host
	req.RequestURI = target
	switch m.Proto {
	case 1:
		req.Proto, req.ProtoMajor, req.ProtoMinor = "HTTP/1.0", 1, 0
		w.probe("request_http_1_0")
	case 2:
		req.Proto, req.ProtoMajor, req.ProtoMinor = "HTTP/2.0", 2, 0
	}
	if m.ReqIDHdr != "" {
		req.Header.Set("X-Request-Id", m.ReqIDHdr)
	}
	if m.TLS {
		req.TLS = &tls.ConnectionState{Version: tls.VersionTLS13, HandshakeComplete: true, ServerName: safeHost(s.Host)}
	}
	for k, v := range s.Header {
		req.Header[k] = v
	}
	if s.ContentType != "" {
		ct := s.ContentType
		if m.Kind != "raw" {
			// media types are case-insensitive and may carry parameters
			switch {
			case ct == "application/x-www-form-urlencoded":
				ct = []string{ct, ct + "; charset=UTF-8", "Application/X-WWW-Form-URLEncoded", ct + ";charset=utf-8"}[mod(m.Style.CT, 4)]
			case strings.HasPrefix(ct, "text/xml"):
				ct = []string{"text/xml; charset=utf-8", "text/xml", "Text/XML; Charset=UTF-8", `text/xml;charset="UTF-8"`}[mod(m.Style.CT, 4)]
			}
			if m.Style.CT != 0 {
				w.probe("request_content_type_variant")
			}
		}
		req.Header.Set("Content-Type", ct)
	}
	if m.Kind == "attrq" && m.Style.Optional&optConsent != 0 {
		req.Header.Set("SOAPAction", `"http://www.oasis-open.org/committees/security"`)
	}
	if sb != nil {
		req.ContentLength = int64(len(s.Body))
		req.Body = sb
		if m.Style.Chunked {
			// Transfer-Encoding: chunked (or HTTP/2 without content-length): net/http reports the length as unknown
			req.ContentLength = -1
			req.TransferEncoding = []string{"chunked"}
			w.probe("body_of_unknown_length")
		}
	}
	s.Summary = fmt.Sprintf("%s %s host=%s id=%q conformant=%v(%s)", s.Method, s.Path, s.Host, s.ReqID, s.Conformant, s.WhyNot)
	return req, s, nil
}

func safeHost(h string) string {
	for _, c := range h {
		if !(c >= 'a' && c <= 'z' || c >= 'A' && c <= 'Z' || c >= '0' && c <= '9' || c == '.' || c == '-' || c == ':') {
			return "placeholder.invalid"
		}
	}
	if h == "" {
		return "placeholder.invalid"
	}
	if u, err := url.Parse("http://" + h + "/"); err != nil || u.Host != h {
		return "placeholder.invalid" // the request line only needs some parseable authority; the Host header is set separately
	}
	return h
}

func (w *World) stampCommon(m *MsgSpec, sp *SPNode, s *Sent, kind string, f *reqFields) {
	s.SPTime = time.Now().Add(time.Duration(sp.Cfg.SkewMs) * time.Millisecond)
	if sp.Cfg.SkewMs != 0 {
		w.fire("sp_skew")
	}
	f.ID = m.ID
	if f.ID == "" {
		f.ID = fmt.Sprintf("_req%d", len(w.tasks))
	}
	f.NoID = m.NoID
	if m.NoID {
		w.notConformant(s, "no ID")
	}
	s.ReqID = f.ID
	if m.NoID {
		s.ReqID = ""
	}
	f.Version = "2.0"
	switch m.Version {
	case "":
	case "-":
		f.NoVersion = true
		w.notConformant(s, "no Version")
	default:
		f.Version = m.Version
		if m.Version != "2.0" {
			w.notConformant(s, "Version")
		}
	}
	ii := s.SPTime.Add(time.Duration(m.IssueInstantNs))
	s.IssueInstant = &ii
	f.IssueInstant = fmtTime(ii, m.Style.Frac)
	f.Destination, f.HasDestination = w.destination(m, kind, s.IdPIssuer)
	s.DestSent, s.HasDest = f.Destination, f.HasDestination
	switch m.DestMode {
	case "", "advertised", "absent":
	default:
		if !m.Probe && !((m.DestMode == "issuer-route" || m.DestMode == "request-host") && f.Destination == w.IDPModel.Location(kind, s.IdPIssuer)) {
			w.notConformant(s, "destination "+m.DestMode)
		}
	}
	f.Issuer, f.IssuerAbsent = w.issuerText(m, sp)
	s.IssuerSent = f.Issuer
	if m.IssuerMode != "" && m.IssuerMode != "own" {
		w.notConformant(s, "issuer "+m.IssuerMode)
	}
	if sp.Idx < 0 || !sp.Registered || sp.Cfg.Corrupt != nil {
		w.notConformant(s, "SP not registered")
	}
}

// signingRequired: by the registry model, must AuthnRequests of this SP be signed right now?
func (w *World) signingRequired(sp *SPNode) bool {
	return isXSTrue(sp.Cfg.AuthnRequestsSigned) || w.IDPModel.WantSignedTrue()
}

func (w *World) signKey(m *MsgSpec, sp *SPNode) *KeyPair {
	if m.SignKey > 0 {
		return Keys[mod(m.SignKey, NumKeys)]
	}
	return Keys[mod(sp.Cfg.Key, NumKeys)]
}

func (w *World) buildSSO(t *Task, m *MsgSpec, sp *SPNode, s *Sent) error {
	f := &reqFields{}
	w.stampCommon(m, sp, s, EPSSO, f)
	f.ProtoBind, f.ACSURL, f.ACSIdx = m.ProtoBind, m.ACSURL, m.ACSIndex
	if m.HasNotBefore || m.HasNotOnOrAfter || m.TimeLit != "" {
		f.HasConditions = true
		if m.HasNotBefore {
			nb := s.SPTime.Add(time.Duration(m.NotBeforeNs))
			s.NotBefore = &nb
			f.NotBefore = fmtTime(nb, m.Style.Frac)
		}
		if m.HasNotOnOrAfter {
			na := s.SPTime.Add(time.Duration(m.NotOnOrAfterNs))
			s.NotOnOrAfter = &na
			f.NotOnOrAfter = fmtTime(na, m.Style.Frac)
		}
		if m.TimeLit != "" {
			w.notConformant(s, "timestamp literal")
			if m.TimeLitWhich == 0 {
				f.NotBefore = m.TimeLit
				s.NotBefore = nil
			} else {
				f.NotOnOrAfter = m.TimeLit
				s.NotOnOrAfter = nil
			}
		}
	}
	xmlText := buildAuthnRequestXML(f, &m.Style)
	return w.encodeFrontChannel(t, m, sp, s, xmlText, EPSSO)
}

func (w *World) buildSLO(t *Task, m *MsgSpec, sp *SPNode, s *Sent) error {
	f := &logoutFields{}
	w.stampCommon(m, sp, s, EPSLO, &f.reqFields)
	f.NameID, f.NoNameID, f.SessionIndex = m.NameID, m.NoNameID, m.SessionIndex
	if f.NameID == "" {
		f.NameID = "user@example.org"
	}
	if m.HasNotOnOrAfter {
		f.HasNOOA = true
		na := s.SPTime.Add(time.Duration(m.NotOnOrAfterNs))
		s.NotOnOrAfter = &na
		f.NotOnOrAfter = fmtTime(na, m.Style.Frac)
	}
	if m.TimeLit != "" {
		w.notConformant(s, "timestamp literal")
		if m.TimeLitWhich == 0 {
			f.IssueInstant = m.TimeLit
			s.IssueInstant = nil
		} else {
			f.HasNOOA = true
			f.NotOnOrAfter = m.TimeLit
			s.NotOnOrAfter = nil
		}
	}
	xmlText := buildLogoutRequestXML(f, &m.Style)
	return w.encodeFrontChannel(t, m, sp, s, xmlText, EPSLO)
}

// encodeFrontChannel signs (if asked), tampers and encodes a front-channel request for its binding.
func (w *World) encodeFrontChannel(t *Task, m *MsgSpec, sp *SPNode, s *Sent, xmlText string, kind string) error {
	s.Path = w.IDPModel.Route(kind)
	if m.PathOverride != "" {
		s.Path = m.PathOverride
	}
	alg := sigAlgURI(m.Sign)
	kp := w.signKey(m, sp)
	s.Relay, s.HasRelay = m.RelayState, m.HasRelay || m.RelayState != ""
	if len(m.RelayState) > 80 {
		w.notConformant(s, "RelayState longer than 80 bytes")
	}
	if len(m.RelayState) == 80 {
		w.probe("relaystate_of_exactly_80_bytes")
	}
	binding := m.Binding
	if binding == "" {
		binding = "redirect"
	}
	if alg != "" {
		s.Signed = true
		s.SignedKey = kp.Idx
		if kp.Idx != sp.Cfg.Key || !sp.Cfg.HasCert {
			w.notConformant(s, "signed with a key that is not registered")
		}
		if now := time.Now(); binding == "post" && (now.Before(kp.Cert.NotBefore) || now.After(kp.Cert.NotAfter)) {
			// whether a receiver honours the validity period of a pinned certificate is its own policy: such a request is not
			// among those C07 demands to be accepted (a forged one must of course still be refused)
			w.notConformant(s, "registered certificate outside its validity period")
			w.probe("signed_with_certificate_outside_validity")
		}
	} else if kind == EPSSO && w.signingRequired(sp) {
		w.notConformant(s, "unsigned although signing is required")
	}
	taskID := -1
	if t != nil {
		taskID = t.ID
	}
	switch binding {
	case "post":
		doc := xmlText
		if alg != "" {
			st := &m.Style
			pfx := []string{"ds", "dsig", ""}[mod(st.SigPrefix, 3)]
			signed, err := SignEnvelopedText(xmlText, kp, SignOpts{SigAlg: alg, Prefix: pfx, KeyInfo: st.KeyInfo, WrapCert: st.WrapCert, WrapValues: st.WrapB64, Indent: st.SigIndent})
			if err != nil {
				return err
			}
			doc = signed
			s.XMLSigned = signed
			sp.SignLog = append(sp.SignLog, SignRec{Binding: "post", Octets: signed, Relay: s.Relay, HasRelay: s.HasRelay, Alg: alg, Key: kp.Idx, Task: taskID})
		} else {
			doc = strings.Replace(doc, sigMarker, "", 1)
		}
		doc = w.tamperXML(m, sp, s, doc)
		s.XML = doc
		form := url.Values{}
		b64 := base64.StdEncoding.EncodeToString([]byte(doc))
		switch m.Style.B64Lines {
		case 1:
			b64 = strings.ReplaceAll(wrapAt(b64, 76), "\n", "\r\n")
			w.probe("post_base64_with_line_breaks")
		case 2:
			b64 = wrapAt(b64, 64)
			w.probe("post_base64_with_line_breaks")
		case 3:
			// every line terminated, the last one too (openssl base64, Python encodebytes, Ruby encode64)
			b64 = strings.ReplaceAll(wrapAt(b64, 76), "\n", "\r\n") + "\r\n"
			w.probe("post_base64_with_line_breaks")
		case 4:
			b64 = wrapAt(b64, 60) + "\n"
			w.probe("post_base64_with_line_breaks")
		}
		form.Set("SAMLRequest", b64)
		if s.HasRelay {
			form.Set("RelayState", s.Relay)
		}
		w.tamperParams(m, sp, s, form, binding)
		for _, e := range m.Extra {
			k, v, _ := strings.Cut(e, "=")
			form.Add(k, v)
		}
		s.Method = "POST"
		s.ContentType = "application/x-www-form-urlencoded"
		s.Body = []byte(form.Encode())
		s.Params = form
		if m.Style.BodyAndURL {
			s.RawQuery = "utm_source=portal&lang=en"
			w.probe("post_with_unrelated_query_parameters")
		}
		for _, tp := range m.Tamper {
			if tp.Op != "query_shadow" {
				continue
			}
			// the URL of the POST carries parameters of its own that contradict the form body: another (unsigned) message under
			// another ID naming the attacker's consumer URL, another RelayState, or signature parameters
			var q []string
			if mod(tp.A, 4) != 3 {
				evil := doc
				if root, err := ParseXML([]byte(doc)); err == nil {
					for _, sg := range root.Childs(NSDS, "Signature") {
						removeChild(root, sg)
					}
					hasACS := false
					for i := range root.Attrs {
						switch root.Attrs[i].Local {
						case "ID":
							root.Attrs[i].Value = "_evil" + root.Attrs[i].Value
						case "AssertionConsumerServiceURL":
							root.Attrs[i].Value, hasACS = "https://evil.example/acs", true
						}
					}
					if !hasACS && kind == EPSSO {
						root.Attrs = append(root.Attrs, XAttr{Local: "AssertionConsumerServiceURL", Value: "https://evil.example/acs"})
					}
					evil = serialize(root)
				}
				if mod(tp.B, 2) == 0 {
					q = append(q, "SAMLRequest="+pctEncode(base64.StdEncoding.EncodeToString([]byte(evil)), 0))
				} else {
					q = append(q, "SAMLRequest="+pctEncode(base64.StdEncoding.EncodeToString(deflateRaw([]byte(evil), 9)), 0))
				}
			}
			if mod(tp.A, 4) != 0 {
				q = append(q, "RelayState="+pctEncode("https://evil.example/landing", 0))
			}
			if mod(tp.A, 4) == 2 {
				q = append(q, "SigAlg="+pctEncode(AlgRSASHA256, 0), "Signature="+pctEncode(base64.StdEncoding.EncodeToString([]byte("forged signature value")), 0))
			}
			s.RawQuery = strings.Join(q, "&")
			w.notConformant(s, "tampered")
			w.fire("tamper_query_shadow")
		}
	default: // redirect
		doc := strings.Replace(xmlText, sigMarker, "", 1)
		preTamper := doc
		doc = w.tamperXML(m, sp, s, doc)
		level := m.Style.Deflate
		if level <= 0 || level > 9 {
			level = 9
		}
		sr, err := BuildRedirectQuery("SAMLRequest", []byte(preTamper), s.Relay, s.HasRelay, alg, kp, m.Style.Enc, level)
		if err != nil {
			return err
		}
		if alg != "" {
			s.XMLSigned = preTamper
			sp.SignLog = append(sp.SignLog, SignRec{Binding: "redirect", Octets: sr.Signed, Relay: s.Relay, HasRelay: s.HasRelay, Alg: alg, Key: kp.Idx, Task: taskID})
		}
		q := sr.RawQuery
		if doc != preTamper {
			// the attacker replaced the message but kept the other parameters (and the signature) as they were
			b64 := base64.StdEncoding.EncodeToString(deflateRaw([]byte(doc), level))
			ps := splitRawQuery(q)
			for i := range ps {
				if ps[i].Key == "SAMLRequest" {
					ps[i].RawVal = pctEncode(b64, m.Style.Enc)
				}
			}
			q = joinRaw(ps)
		}
		s.XML = doc
		if m.Style.EncodingP == 1 {
			q += "&SAMLEncoding=" + pctEncode(EncDeflate, m.Style.Enc)
		}
		q = w.tamperRawQuery(m, sp, s, q)
		for _, e := range m.Extra {
			q += "&" + e
		}
		s.Method = "GET"
		s.RawQuery = q
		if vals, err := url.ParseQuery(q); err == nil {
			s.Params = vals
		}
		if m.Method == "POST-override" {
			// the signed redirect URL is replayed as a form POST whose body carries another message and RelayState
			evil := doc
			if root, err := ParseXML([]byte(doc)); err == nil {
				for i := range root.Attrs {
					if root.Attrs[i].Local == "ID" {
						root.Attrs[i].Value = "_evil" + root.Attrs[i].Value
					}
				}
				evil = serialize(root)
			}
			s.Method = "POST"
			s.ContentType = "application/x-www-form-urlencoded"
			body := "SAMLRequest=" + pctEncode(base64.StdEncoding.EncodeToString(deflateRaw([]byte(evil), level)), 0)
			if mod(len(m.ID), 2) == 0 {
				body += "&RelayState=" + pctEncode("https://evil.example/landing", 0)
			}
			s.Body = []byte(body)
			s.XML = evil
			w.notConformant(s, "tampered")
			w.fire("tamper_body_override")
			if bv, err := url.ParseQuery(body); err == nil {
				for k, v := range s.Params {
					bv[k] = append(bv[k], v...)
				}
				s.Params = bv
			}
		}
		if m.Method == "POST-query" {
			// the redirect-encoded message stays in the URL, but the request is a POST (empty form body)
			s.Method = "POST"
			s.ContentType = "application/x-www-form-urlencoded"
			s.Body = []byte{}
			w.notConformant(s, "redirect message sent with POST")
			w.fire("tamper_post_with_query_message")
		}
		if m.Method == "POST-move" {
			// cross-binding move: the redirect-encoded parameters are submitted as a POST form
			s.Method = "POST"
			s.ContentType = "application/x-www-form-urlencoded"
			s.Body = []byte(q)
			s.RawQuery = ""
		}
	}
	s.SigAlgSent = firstOf(s.Params["SigAlg"])
	return nil
}

func firstOf(v []string) string {
	if len(v) > 0 {
		return v[0]
	}
	return ""
}

func joinRaw(ps []rawParam) string {
	parts := make([]string, len(ps))
	for i, p := range ps {
		parts[i] = p.Key + "=" + p.RawVal
	}
	return strings.Join(parts, "&")
}

func (w *World) buildAttrQ(t *Task, m *MsgSpec, sp *SPNode, s *Sent) error {
	f := &attrQueryFields{}
	w.stampCommon(m, sp, s, EPAttr, &f.reqFields)
	switch m.SubjMode {
	case "", "user":
		if len(w.cfg.Users) > 0 {
			f.Subject = w.cfg.Users[mod(m.User, len(w.cfg.Users))].LoginName
		}
	case "unknown":
		f.Subject = "nobody-known@example.org"
		w.notConformant(s, "unknown subject")
	case "absent":
		f.NoSubject = true
		w.notConformant(s, "no subject")
	case "no-nameid":
		f.NoNameID = true
		w.notConformant(s, "no NameID")
	case "literal":
		f.Subject = m.SubjLit
		w.notConformant(s, "literal subject")
	}
	f.Requested = m.Requested
	for _, q := range m.Requested {
		if strings.TrimSpace(q.Name) == "" {
			w.notConformant(s, "requested attribute without a name")
		}
	}
	for _, tp := range m.Tamper {
		if tp.Op == "noquery" {
			f.NoQuery = true
			w.fire("tamper_noquery")
		}
	}
	f.SoapPrefix = m.Style.SigPrefix
	f.HeaderBlock = m.Style.Optional&optExtensions != 0
	open, query, closeS := buildAttributeQueryXML(f, &m.Style)
	alg := sigAlgURI(m.Sign)
	kp := w.signKey(m, sp)
	taskID := -1
	if t != nil {
		taskID = t.ID
	}
	if alg != "" && query != "" {
		st := &m.Style
		pfx := []string{"ds", "dsig", ""}[mod(st.SigPrefix, 3)]
		signed, err := SignEnvelopedText(query, kp, SignOpts{SigAlg: alg, Prefix: pfx, KeyInfo: st.KeyInfo, WrapCert: st.WrapCert, WrapValues: st.WrapB64, Indent: st.SigIndent})
		if err != nil {
			return err
		}
		query = signed
		s.Signed, s.SignedKey, s.XMLSigned = true, kp.Idx, signed
		if kp.Idx != sp.Cfg.Key || !sp.Cfg.HasCert {
			w.notConformant(s, "signed with a key that is not registered")
		}
		sp.SignLog = append(sp.SignLog, SignRec{Binding: "soap", Octets: signed, Alg: alg, Key: kp.Idx, Task: taskID})
	} else {
		query = strings.Replace(query, sigMarker, "", 1)
	}
	query = w.tamperXML(m, sp, s, query)
	s.XML = query
	for _, tp := range m.Tamper {
		if tp.Op == "soap_header_wrap" && s.Signed {
			// signature wrapping through the SOAP envelope: the query the SP signed travels in soap:Header, the query in soap:Body
			// asks for someone else under another ID and carries a copy of that signature
			if root, err := ParseXML([]byte(query)); err == nil {
				for i := range root.Attrs {
					if root.Attrs[i].Local == "ID" {
						root.Attrs[i].Value = "_evil" + root.Attrs[i].Value
					}
				}
				if len(w.cfg.Users) > 0 {
					root.Walk(func(n *Node) {
						if n.Is(NSA, "NameID") {
							n.Children = []*Node{{IsText: true, Text: w.cfg.Users[mod(tp.A, len(w.cfg.Users))].LoginName, Parent: n}}
						}
					})
				}
				evil := serialize(root)
				if i := strings.Index(open, "Body"); i > 0 {
					j := strings.LastIndex(open[:i], "<")
					pfx := open[j+1 : i]
					open = open[:j] + "<" + pfx + "Header>" + query + "</" + pfx + "Header>" + open[j:]
					open = strings.Replace(open, "<"+pfx+"Header/>", "", 1) // the empty header block some styles add
				}
				query = evil
				s.XML = evil
				w.notConformant(s, "tampered")
				w.fire("tamper_soap_header_wrap")
			}
		}
	}
	if st := &m.Style; st.HoistNS != 0 && len(m.Tamper) == 0 {
		// a SOAP stack that serialises the whole envelope at once declares the namespaces the query uses on an ancestor
		// (same infoset; under exclusive C14N also the same digest input)
		if decl := styleNS(st.Prefix).rootDecl; strings.Contains(query, "AttributeQuery"+decl) {
			hoisted := false
			if st.HoistNS == 1 {
				if i := strings.Index(open, "Envelope"); i >= 0 {
					if j := strings.Index(open[i:], ">"); j >= 0 {
						open, hoisted = open[:i+j]+decl+open[i+j:], true
					}
				}
			} else if i := strings.LastIndex(open, "Body>"); i >= 0 {
				open, hoisted = open[:i+4]+decl+open[i+4:], true
			}
			if hoisted {
				query = strings.Replace(query, "AttributeQuery"+decl, "AttributeQuery", 1)
				w.probe("soap_query_namespaces_declared_on_an_ancestor")
			}
		}
	}
	body := open + query + closeS
	for _, tp := range m.Tamper {
		if tp.Op == "envelope" {
			body = string(applyCorrupt([]byte(body), &Corrupt{Kind: tp.S, A: tp.A, B: tp.B}))
		}
	}
	s.Method, s.Path, s.ContentType = "POST", w.IDPModel.Route(EPAttr), "text/xml; charset=utf-8"
	if m.PathOverride != "" {
		s.Path = m.PathOverride
	}
	s.Body = []byte(body)
	return nil
}

func (w *World) buildCallback(m *MsgSpec, s *Sent) {
	s.Path = w.IDPModel.Route(EPCallback)
	id := ""
	switch m.IDMode {
	case "", "session":
		if len(w.sessions) > 0 {
			se := w.sessions[mod(m.Session, len(w.sessions))]
			id = se.ID
			s.Session = se.Idx
		} else {
			id = "ar0-none"
		}
	case "unknown":
		id = "ar999-deadbeef0000"
	case "empty":
		id = ""
	case "huge":
		id = strings.Repeat("A", 70000)
	case "literal":
		id = m.IDLit
	case "session-variant":
		// an id that is NOT a stored one but that a sloppy lookup (unescaping, trimming, case folding …) would map onto one
		id = "ar0-none"
		if len(w.sessions) > 0 {
			se := w.sessions[mod(m.Session, len(w.sessions))]
			real := se.ID
			switch m.IDLit {
			case "pct-char":
				id = real[:len(real)-1] + fmt.Sprintf("%%%02X", real[len(real)-1])
			case "pct-dash":
				id = strings.Replace(real, "-", "%2D", 1)
			case "upper":
				id = strings.ToUpper(real)
			case "trailing-space":
				id = real + " "
			case "leading-space":
				id = " " + real
			case "trailing-nul":
				id = real + "\x00"
			case "plus-for-dash":
				id = strings.Replace(real, "-", "+", 1)
			case "double-pct":
				id = url.QueryEscape(url.QueryEscape(real + "/"))
				id = strings.TrimSuffix(id, "%252F")
				if id == real {
					id = real[:len(real)-1] + "%25" + fmt.Sprintf("%02X", real[len(real)-1])
				}
			case "trailing-slash":
				id = real + "/"
			default:
				id = real[:len(real)-2]
			}
		}
	}
	s.CallbackID = id
	s.CallbackIDs = []string{id}
	place := m.IDPlace
	if place == "" {
		place = "query"
	}
	s.Method = "GET"
	if place == "form" || place == "both" || m.Method == "POST" {
		s.Method = "POST"
		s.ContentType = "application/x-www-form-urlencoded"
		s.Body = []byte{}
	}
	enc := url.QueryEscape(id)
	switch place {
	case "query":
		s.RawQuery = "id=" + enc
	case "form":
		s.Body = []byte("id=" + enc)
	case "both":
		s.RawQuery = "id=" + enc
		s.Body = []byte("id=" + enc)
	case "form-other-query":
		// form body names the session, query names nothing known (POST form values take precedence in r.Form)
		s.Method, s.ContentType = "POST", "application/x-www-form-urlencoded"
		s.Body = []byte("id=" + enc)
		s.RawQuery = "id=ar999-deadbeef0000"
		s.CallbackIDs = append(s.CallbackIDs, "ar999-deadbeef0000")
	}
	for _, e := range m.Extra {
		if s.RawQuery != "" {
			s.RawQuery += "&"
		}
		s.RawQuery += e
	}
}
