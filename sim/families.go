package sim

// Scenario families: one generic, weight-driven plan generator, specialised per property.

import (
	"fmt"
	"strings"
)

// soakPct: percentage of runs of every family that are long ("soak") runs.
const soakPct = 3

type mixOpts struct {
	family string
	world  worldOpts

	// message kinds (weights)
	wSSO, wCallback, wSLO, wAttrQ, wMeta, wCert, wReady, wHealthz, wRaw int
	// scheduler / environment steps (weights)
	wResume, wFinish, wComplete, wUncomplete, wAdvance, wRestart, wDelReq, wRotate, wRotateMeta, wRereg, wDelSP, wPair, wUnhealthy, wCancel, wTear, wRandFail int

	devPct        int // a protocol message deviates from conformance in one listed way
	tamperPct     int // a protocol message is manipulated in flight
	timePct       int // a front-channel message gets a window and a boundary-aimed delivery
	faultPcts     []int
	bodyFaultPct  int
	writeFaultPct int
	minSteps      int
	maxSteps      int
	maxPre        int
	hardPre       bool // preseeded records carry hard strings and odd bindings / ACS values
	preBindings   []string
	recoveryPct   int
	raceBias      bool // place CompleteLogin right before/after the callback's storage read
	hostVariety   bool
	autoFinishPct int // after a send, immediately run the task to completion (serial use)
	callbackAfter int // percent: after an sso send+finish, complete and call back the new session
	rogueSPPct    int
	deadlinePct   int // a request carries a server-side deadline on the simulated clock
	oddHostPct    int // request Host / Forwarded values that are not valid URL authorities (only where nothing but panics is judged)
}

func (g G) drawHost(label string, c *IDPCfg, i int, m *MsgSpec) {
	if c.IssuerKind == "static" || c.IssuerKind == "" {
		return
	}
	h := fmt.Sprintf("%s.idp.example", hostMarker(i))
	if g.chance(label+".port", 10) {
		h += g.pick(label+".portv", ":443", ":80", ":8443") // an explicit port is part of the host the issuer is derived from
	}
	if g.chance(label+".puny", 12) {
		h = "xn--" + h // an internationalised (punycode) host name: legal, and it contains "--"
	}
	// RFC 7239: a host with a port is not a token and has to travel as a quoted-string
	hq := h
	if strings.Contains(h, ":") {
		hq = `"` + h + `"`
	}
	switch c.IssuerKind {
	case "host":
		m.Host = h
	case "forwarded":
		switch g.intn(label+".fw", 5) {
		case 3:
			// two header lines; the first proxy knows no host
			m.Host = "internal.lb"
			m.Forwarded = "for=203.0.113.7\nfor=192.0.2.1;host=" + hq + ";proto=https"
		case 4:
			// one line, two elements; the second element names an inner host that must not win
			m.Host = "internal.lb"
			m.Forwarded = "for=203.0.113.7;host=" + hq + ", for=10.0.0.1;host=inner-proxy.cluster.internal"
		case 0:
			m.Host = h
		case 1:
			m.Host = "internal.lb"
			m.Forwarded = "for=192.0.2.1;host=" + hq + ";proto=https"
		case 2:
			m.Host = "internal.lb"
			m.Forwarded = `for=192.0.2.1, host="` + h + `"`
		}
	case "header":
		if g.chance(label+".hdr", 60) {
			m.Host = "internal.lb"
			m.XFHeader = "host=" + hq
			if len(c.Headers) > 1 {
				m.XFWhich = g.weighted(label+".hdrw", 50, 20, 30)
			}
		} else {
			m.Host = h
		}
	}
}

func (g G) drawPre(p *Plan, o *mixOpts) {
	npre := g.intn("npre", o.maxPre+1)
	for i := 0; i < npre; i++ {
		lab := fmt.Sprintf("pre%d", i)
		sp := g.intn(lab+".sp", len(p.World.SPs))
		acs := p.World.SPs[sp].ACS[g.intn(lab+".acs", len(p.World.SPs[sp].ACS))]
		binds := o.preBindings
		if len(binds) == 0 {
			binds = []string{BindPost, BindRedirect}
		}
		ps := Preseed{SP: sp, AuthRequestID: "_pre" + sessionMarker(900+i), RelayState: "relay" + sessionMarker(900+i),
			ACS: acs.URL, Binding: g.pick(lab+".b", binds...), Done: g.chance(lab+".done", 60), User: g.intn(lab+".u", 4)}
		if o.hardPre {
			hard := g.chance(lab+".hard", 60)
			ps.AuthRequestID = g.text(lab+".arid", "_pre"+sessionMarker(900+i), hard)
			ps.RelayState = g.text(lab+".relay", "relay"+sessionMarker(900+i), hard)
			if g.chance(lab+".norelay", 15) {
				ps.RelayState = ""
			}
			if g.chance(lab+".noarid", 6) {
				ps.AuthRequestID = "" // a record written without the SP's AuthnRequest ID
			}
			switch g.weighted(lab+".acsk", 70, 10, 20) {
			case 1:
				ps.ACS = ""
			case 2:
				ps.ACS = "https://sp.example/" + g.text(lab+".acsv", "acs"+sessionMarker(900+i), hard) + g.pick(lab+".acsq", "", "?a=1&b=2", "?x=<y>", `?q="v"`)
				if ps.Binding == BindRedirect && g.chance(lab+".acsbad", 30) {
					// a stored consumer URL that net/url refuses to parse (written by an integrator, or registered long ago)
					ps.ACS = g.pick(lab+".acsbadv", " https://sp.example/acs"+sessionMarker(900+i), "https://sp.example/acs"+sessionMarker(900+i)+"%zz", "https://sp.example:port/acs"+sessionMarker(900+i), "https://sp.example/acs"+sessionMarker(900+i)+"\t", "http://[::1/acs"+sessionMarker(900+i))
				}
			}
		}
		p.World.Presessions = append(p.World.Presessions, ps)
	}
}

func (g G) planMix(prop string, o *mixOpts) *Plan {
	p := &Plan{Format: 1, Property: prop, Mode: "serial", Family: o.family}
	p.World = g.drawWorld(o.world)
	g.drawPre(p, o)
	fp := 0
	if len(o.faultPcts) > 0 {
		fp = o.faultPcts[g.intn("faultPct", len(o.faultPcts))]
	}
	if o.minSteps == 0 {
		o.minSteps, o.maxSteps = 3, 40
	}
	n := g.rng("nsteps", o.minSteps, o.maxSteps)
	// soak runs: a few executions are an order of magnitude longer than the rest, so that state which only builds up over
	// many requests on one provider instance (caches that evict, pools, counters) is reached at all
	sessRange := 8
	if g.chance("soak", soakPct) {
		n = g.rng("nsoak", 120, 400)
		sessRange = 64
		p.Family += "+soak"
	}
	nsp := len(p.World.SPs)
	weights := []int{o.wSSO, o.wCallback, o.wSLO, o.wAttrQ, o.wMeta, o.wCert, o.wReady, o.wHealthz, o.wRaw,
		o.wResume, o.wFinish, o.wComplete, o.wUncomplete, o.wAdvance, o.wRestart, o.wDelReq, o.wRotate, o.wRotateMeta, o.wRereg, o.wDelSP, o.wPair, o.wUnhealthy, o.wCancel, o.wTear, o.wRandFail}
	sent := 0
	for i := 0; i < n; i++ {
		lab := fmt.Sprintf("s%d", i)
		k := g.weighted(lab+".k", weights...)
		var m *MsgSpec
		switch k {
		case 0:
			m = g.drawSSO(lab+".sso", &p.World, g.intn(lab+".sp", nsp))
		case 1:
			m = &MsgSpec{Kind: "callback", Session: g.intn(lab+".sess", sessRange),
				IDMode:  g.pick(lab+".idmode", "session", "session", "session", "session", "session", "unknown", "empty", "literal"),
				IDPlace: g.pick(lab+".place", "query", "query", "form", "both", "form-other-query")}
			if m.IDMode == "literal" {
				m.IDLit = g.pick(lab+".idlit", "ar0-", "ar0-000000000000", " ", "%00", "../ar0", "ar1-x' OR '1'='1")
			}
		case 2:
			m = g.drawSLO(lab+".slo", &p.World, g.intn(lab+".sp", nsp))
		case 3:
			m = g.drawAttrQ(lab+".aq", &p.World, g.intn(lab+".sp", nsp))
		case 4:
			m = &MsgSpec{Kind: "metadata"}
		case 5:
			m = &MsgSpec{Kind: "cert"}
		case 6:
			m = &MsgSpec{Kind: "ready"}
		case 7:
			m = &MsgSpec{Kind: "healthz"}
		case 8:
			m = g.drawRaw(lab + ".raw")
		}
		if m != nil {
			m.Replica = g.intn(lab+".rep", 3)
			m.TLS = g.chance(lab+".tls", 35)
			m.Proto = g.weighted(lab+".proto", 80, 10, 10)
			if g.chance(lab+".rid", 15) {
				// a gateway's correlation id: repeated on retries, often not an NCName
				m.ReqIDHdr = g.pick(lab+".ridv", "req-1", "req-1", "Root=1-67891233-abcdef012345678912345678", "7f3e 0a", "a/b+c=", "0b9c2d6e-1f4a-4c57-9d3e-2a1b0c9d8e7f")
			}
			if m.Kind == "ready" {
				m.Head = g.chance(lab+".head", 30)
			}
			if o.hostVariety {
				g.drawHost(lab+".host", &p.World.IDP, g.intn(lab+".hosti", 3), m)
			}
			if g.chance(lab+".oddhost", o.oddHostPct) {
				// every value passes net/http's Host header validation, few are valid authorities
				odd := g.pick(lab+".oddhostv", "idp.example.com:abc", "[::1", "idp.example.com%zz", "[::1]:99999", "a:b:c", "%", "idp.example.com:", ":443", "[", "]", "idp..example", "xn--", "a@b", "user:pw@idp.example", "idp.example.com:80:80", "[fe80::1%25eth0]", "-", "")
				switch g.intn(lab+".oddhostw", 3) {
				case 0:
					m.Host = odd
				case 1:
					m.Forwarded = "for=192.0.2.1;host=" + odd + ";proto=https"
				case 2:
					m.Forwarded = `host="` + odd + `";proto=` + g.pick(lab+".oddproto", "https", "http", "", "ftp", "h ttp")
				}
			}
			proto := m.Kind == "sso" || m.Kind == "slo" || m.Kind == "attrq"
			if proto {
				if g.chance(lab+".rogue", o.rogueSPPct) {
					m.SP = -1
				}
				if (m.Kind == "sso" || m.Kind == "slo") && g.chance(lab+".time", o.timePct) {
					g.timeBias(lab+".tb", m)
				}
				if g.chance(lab+".dev", o.devPct) {
					g.deviate(lab+".dv", m)
				}
				if g.chance(lab+".tamper", o.tamperPct) {
					g.tamper(lab+".tp", m)
				}
			}
			if (m.Kind == "sso" && m.Binding == "post") || m.Kind == "attrq" || (m.Kind == "slo" && m.Binding == "post") || (m.Kind == "callback" && m.IDPlace != "query") {
				if g.chance(lab+".bf", o.bodyFaultPct) {
					m.BodyFault = g.pick(lab+".bfk", "short", "err", "eof", "split")
					m.BodyOff = g.intn(lab+".bfo", 3000)
				}
			}
			if fp > 0 && g.chance(lab+".fa", fp) {
				m.FaultAt = g.rng(lab+".fan", 1, 4)
				m.FaultKind = g.pick(lab+".fak", "err", "err", "nil_record", "key_without_cert", "cert_without_key", "empty_cert", "partial_err", "err_canceled", "err_notfound", "err_deadline", "err_eof", "err_text")
			}
			if g.chance(lab+".dl", o.deadlinePct) {
				m.DeadlineNs = int64(g.pick2ms(lab + ".dlv"))
			}
			if g.chance(lab+".wf", o.writeFaultPct) {
				m.WriterFault, m.WriterOff = true, g.intn(lab+".wfo", 2000)
			}
			p.Steps = append(p.Steps, Step{K: "send", Msg: m})
			sent++
			if m.Kind == "callback" && o.raceBias && g.chance(lab+".race", 50) {
				if g.chance(lab+".before", 50) {
					p.Steps = append(p.Steps, Step{K: "mutate", Mut: "complete", A: m.Session, B: g.intn(lab+".user", 4)})
					p.Steps = append(p.Steps, Step{K: "resume", Pick: 99, Fault: g.drawFault(lab+".f1", fp)})
				} else {
					p.Steps = append(p.Steps, Step{K: "resume", Pick: 99, Fault: g.drawFault(lab+".f1", fp)})
					p.Steps = append(p.Steps, Step{K: "mutate", Mut: "complete", A: m.Session, B: g.intn(lab+".user", 4)})
				}
			}
			if g.chance(lab+".auto", o.autoFinishPct) {
				p.Steps = append(p.Steps, Step{K: "finish", Pick: 99})
				if m.Kind == "sso" && g.chance(lab+".cb", o.callbackAfter) {
					p.Steps = append(p.Steps, Step{K: "mutate", Mut: "complete", A: -1, B: g.intn(lab+".cbu", 4)})
					if g.chance(lab+".cbadv", 30) {
						p.Steps = append(p.Steps, Step{K: "advance", Ns: g.drawAdvance(lab+".cbadvv", nil)})
					}
					p.Steps = append(p.Steps, Step{K: "send", Msg: &MsgSpec{Kind: "callback", Session: -1, IDMode: "session", IDPlace: g.pick(lab+".cbplace", "query", "form"), Host: m.Host, Forwarded: m.Forwarded, XFHeader: m.XFHeader}})
					p.Steps = append(p.Steps, Step{K: "finish", Pick: 99})
				}
			}
			continue
		}
		switch k {
		case 9:
			p.Steps = append(p.Steps, Step{K: "resume", Pick: g.intn(lab+".pick", 8), Fault: g.drawFault(lab+".f", fp)})
		case 10:
			p.Steps = append(p.Steps, Step{K: "finish", Pick: g.intn(lab+".pick", 8)})
		case 11:
			p.Steps = append(p.Steps, Step{K: "mutate", Mut: "complete", A: g.intn(lab+".sess", sessRange), B: g.intn(lab+".user", 4)})
		case 12:
			p.Steps = append(p.Steps, Step{K: "mutate", Mut: "uncomplete", A: g.intn(lab+".sess", sessRange)})
		case 13:
			p.Steps = append(p.Steps, Step{K: "advance", Ns: g.drawAdvance(lab+".adv", nil)})
		case 14:
			p.Steps = append(p.Steps, Step{K: "restart", Replica: g.intn(lab+".rep", 3)})
		case 15:
			p.Steps = append(p.Steps, Step{K: "mutate", Mut: "deleteRequest", A: g.intn(lab+".sess", sessRange)})
		case 16:
			p.Steps = append(p.Steps, Step{K: "mutate", Mut: "rotateKey"})
		case 17:
			p.Steps = append(p.Steps, Step{K: "mutate", Mut: "rotateMetaKey"})
		case 18:
			if g.chance(lab+".moveapp", 30) {
				p.Steps = append(p.Steps, Step{K: "mutate", Mut: "moveApp", A: g.intn(lab+".sp", 4), B: g.intn(lab+".sp2", 4)})
			} else {
				p.Steps = append(p.Steps, Step{K: "mutate", Mut: "reregister", A: g.intn(lab+".sp", 4), B: g.intn(lab+".how", 8)})
			}
		case 19:
			p.Steps = append(p.Steps, Step{K: "mutate", Mut: "deleteSP", A: g.intn(lab+".sp", 4)})
		case 20:
			p.Steps = append(p.Steps, Step{K: "pair", Pick: g.intn(lab+".a", 8), Pick2: g.intn(lab+".b", 8)})
		case 21:
			p.Steps = append(p.Steps, Step{K: "mutate", Mut: "unhealthy"})
		case 22:
			p.Steps = append(p.Steps, Step{K: "cancel", Pick: g.intn(lab+".pick", 8)})
		case 23:
			p.Steps = append(p.Steps, Step{K: "mutate", Mut: "tearKey"})
		case 24:
			p.Steps = append(p.Steps, Step{K: "randfail", Pick: g.intn(lab+".n", 6)})
		}
	}
	p.Recovery = g.chance("recovery", o.recoveryPct)
	return p
}

// drawRaw draws an arbitrary request to one of the routed paths (or a path nobody serves).
func (g G) drawRaw(label string) *MsgSpec {
	m := &MsgSpec{Kind: "raw"}
	m.Method = g.pick(label+".m", "GET", "POST", "PUT", "HEAD", "OPTIONS", "DELETE")
	m.RawPath = g.pick(label+".p", "/SSO", "/SLO", "/login", "/attribute", "/metadata", "/certificate", "/healthz", "/ready", "/", "/nothing", "/SSO/", "//SSO")
	m.RawQuery = g.pick(label+".q", "", "SAMLRequest=", "SAMLRequest=%", "SAMLRequest=AAAA", "id=", "id=%zz", "SAMLRequest=AAAA&SigAlg=x", "SAMLRequest=AAAA&Signature=AAAA&SigAlg="+AlgRSASHA256, "a=b;c=d", "SAMLRequest=eJwDAAAAAAE%3D")
	if m.Method == "POST" || m.Method == "PUT" {
		m.RawCT = g.pick(label+".ct", "application/x-www-form-urlencoded", "text/xml", "multipart/form-data; boundary=x", "", "application/json")
		m.RawBody = g.pick(label+".b", "", "SAMLRequest=", "SAMLRequest=AAAA", "<x/>", "%", "id=x", "<soap:Envelope xmlns:soap=\""+NSSOAP+"\"><soap:Body/></soap:Envelope>", "<soap:Envelope xmlns:soap=\""+NSSOAP+"\"/>", "\x00\x01\x02")
	}
	return m
}
