package sim

// C10 — storage and key failures fail closed (fault enumeration + random fault schedules).

import (
	"fmt"
	"strings"
	"testing"
)

// faultKindsFor: the fault kinds the property names for a storage operation.
func faultKindsFor(op string) []string {
	if op == "GetResponseSigningKey" || op == "GetMetadataSigningKey" {
		return []string{"err", "nil_record", "key_without_cert", "cert_without_key", "empty_cert"}
	}
	return []string{"err"}
}

// errFlavours: "a returned error" comes in several values (cancelled / timed-out context, a driver's no-rows error, a
// broken connection). Single faults are enumerated with every flavour, the second fault of a pair with the plain one.
var errFlavours = []string{"err_canceled", "err_deadline", "err_notfound", "err_eof", "err_text"}

func firstFaultKindsFor(op string) []string {
	return append(faultKindsFor(op), errFlavours...)
}

// occurrence renders "Op#n" for the i-th call of a task.
func occurrence(t *Task, idx int) string {
	n := 0
	for i := 0; i <= idx && i < len(t.Calls); i++ {
		if t.Calls[i].Op == t.Calls[idx].Op {
			n++
		}
	}
	return fmt.Sprintf("%s#%d", t.Calls[idx].Op, n)
}

func oracleC10(r *Result) {
	w := r.World
	algBad := !validSigAlg(w.cfg.IDP.SigAlg)
	metaAlgBad := w.cfg.IDP.MetaSigAlg != "" && !validSigAlg(w.cfg.IDP.MetaSigAlg)
	for _, t := range r.Tasks {
		if t.Abandoned || t.Reply == nil {
			continue
		}
		// first failure-type storage fault of this task
		fidx := -1
		for i := range t.Calls {
			f := t.Calls[i].Fault
			if f != "" && f != "abandoned" {
				fidx = i
				break
			}
		}
		cls := ""
		switch {
		case fidx >= 0:
			cls = occurrence(t, fidx) + ":" + t.Calls[fidx].Fault
		case algBad && (t.Msg.Kind == "attrq" || t.Msg.Kind == "callback") && firstCall(t, "GetResponseSigningKey") != nil && reachedSigning(t):
			cls = "alg_unusable"
			w.fire("alg_unusable")
		case metaAlgBad && t.Msg.Kind == "metadata":
			cls = "meta_alg_unusable"
			w.fire("alg_unusable")
		default:
			if t.Panic != "" && faultDuring(r, t) {
				// the request itself met no failing call, yet it crashed while another request's storage call failed
				r.violate("C10 bystander-panic", "C10:bystander:"+t.Msg.Kind+":panic:"+t.PanicFunc,
					"a storage failure met by one request ends in an error reply for that request and leaves concurrent requests alone",
					"panic: "+t.Panic+"\n"+abbreviate(t.PanicStack, 1500), t.ID)
				continue
			}
			if t.Msg.Bystander && r.Plan.BystanderSig != "" && t.Panic == "" {
				w.probe("bystander_during_fault")
				if got := replySummary(t); got != r.Plan.BystanderSig {
					r.violate("C10 bystander-affected", "C10:bystander:"+t.Msg.Kind+":reply-changed",
						"a concurrent request of another session is answered as in the fault-free run: "+r.Plan.BystanderSig, got, t.ID)
				}
			}
			continue
		}
		kind := t.Msg.Kind
		if t.Panic != "" {
			r.violate("C10 panic-after-fault", "C10:"+kind+":"+cls+":panic:"+t.PanicFunc,
				"a storage or key failure ends in an error reply, never a panic", "panic: "+t.Panic+"\n"+abbreviate(t.PanicStack, 1500), t.ID)
			continue
		}
		// no persistence after the failure
		if fidx >= 0 {
			for i := fidx + 1; i < len(t.Calls); i++ {
				if t.Calls[i].Op == "CreateAuthRequest" {
					r.violate("C10 persistence-after-fault", "C10:"+kind+":"+cls+":persist-after-fault",
						"no persistence after a storage failure", fmt.Sprintf("calls: %s", callTrace(t)), t.ID)
				}
			}
		}
		if writerFaultFired(t) {
			continue
		}
		rep := t.Reply
		ok := false
		switch {
		case rep.Msg != nil && !rep.Msg.Success && rep.DecodeErr == "":
			ok = true
		case rep.Msg == nil && rep.Status >= 500 && rep.Status <= 599:
			ok = true
		}
		if !ok {
			what := fmt.Sprintf("status-%d-%s", rep.Status, rep.Kind)
			if rep.IsSuccess() {
				what = "saml-success"
			}
			r.violate("C10 no-error-reply", "C10:"+kind+":"+cls+":"+what,
				"the request ends in HTTP 5xx or a SAML response with non-Success status", replySummary(t), t.ID)
			continue
		}
		if lk := leaks(w, t); len(lk) > 0 {
			r.violate("C10 error-reply-leaks", "C10:"+kind+":"+cls+":leak:"+strings.Join(lk, "+"),
				"an error reply carries no subject, attribute value, signature or user data", fmt.Sprintf("leaks=%v %s", lk, replySummary(t)), t.ID)
		}
	}
}

// faultDuring: a failure-type storage fault was injected into another task while t was in flight.
func faultDuring(r *Result, t *Task) bool {
	for _, o := range r.Tasks {
		if o == t {
			continue
		}
		for i := range o.Calls {
			c := &o.Calls[i]
			if c.Fault != "" && c.Fault != "abandoned" && c.Seq > t.SeqInvoke && (t.SeqReturn == 0 || c.Seq < t.SeqReturn) {
				return true
			}
		}
	}
	return false
}

// reachedSigning: the task got as far as fetching the key it signs with (callback: after user info; attrq: second key read).
func reachedSigning(t *Task) bool {
	switch t.Msg.Kind {
	case "callback":
		c := firstCall(t, "SetUserinfoWithUserID")
		return c != nil && c.Err == "" && firstCall(t, "GetResponseSigningKey") != nil
	case "attrq":
		return len(callsOf(t, "GetResponseSigningKey")) >= 2
	}
	return false
}

func callTrace(t *Task) string {
	var parts []string
	for _, c := range t.Calls {
		s := c.Op
		if c.Fault != "" {
			s += "!" + c.Fault
		}
		parts = append(parts, s)
	}
	return strings.Join(parts, " → ")
}

// ---------------------------------------------------------------------------
// enumeration

type c10Workload struct {
	name string
	pre  []Preseed
	main func(w *WorldCfg) *MsgSpec
	done bool // complete session 0 before the main request
}

func c10BaseWorld(variant int) WorldCfg {
	base := "https://sp0.example/" + spMarker(0)
	base1 := "https://sp1.example/" + spMarker(1)
	w := WorldCfg{Replicas: 1, UUIDKey: 7, EpochMs: 1000 * 86400 * 365 * 5}
	w.IDP = IDPCfg{IssuerKind: "static", Issuer: "https://idp.example", SigAlg: AlgRSASHA256}
	switch variant {
	case 1:
		w.IDP.SigAlg, w.IDP.MetaSigAlg = AlgRSASHA1, AlgRSASHA256
	case 2:
		w.IDP = IDPCfg{IssuerKind: "host", Issuer: "/saml", SigAlg: AlgRSASHA256, MetaSigAlg: AlgRSASHA1, Org: &OrgCfg{Name: "Org", DisplayName: "Org Display", URL: "https://org.example"},
			Contact: &ContactCfg{Type: "technical", Company: "Co", GivenName: "G", SurName: "S", Email: "mailto:ops@example.org", Phone: "+41"}}
	case 3:
		w.IDP.SigAlg, w.IDP.MetaSigAlg = "http://www.w3.org/2000/09/xmldsig#dsa-sha1", "urn:example:unusable"
	}
	w.SPs = []SPCfg{
		{Entity: base + "/metadata", AppID: "app-" + spMarker(0), Key: KeySP0, HasCert: true, CertUse: "signing",
			ACS: []ACSCfg{{Binding: BindPost, Index: "0", IsDefault: "true", URL: base + "/acs"}, {Binding: BindRedirect, Index: "1", URL: base + "/acs-redirect"}},
			SLO: []SLOCfg{{Binding: BindPost, URL: base + "/slo"}}},
		{Entity: base1 + "/metadata", AppID: "app-" + spMarker(1), Key: KeySP0 + 1, HasCert: true, CertUse: "signing", AuthnRequestsSigned: "true",
			ACS: []ACSCfg{{Binding: BindPost, Index: "0", URL: base1 + "/acs"}}, SLO: []SLOCfg{{Binding: BindRedirect, URL: base1 + "/slo"}}},
	}
	w.Rogue = SPCfg{Entity: "https://rogue.example/metadata", AppID: "app-rogue", Key: KeyRogue, HasCert: true, CertUse: "signing",
		ACS: []ACSCfg{{Binding: BindPost, Index: "0", URL: "https://rogue.example/acs"}}}
	for i := 0; i < 2; i++ {
		mk := userMarker(i)
		w.Users = append(w.Users, UserCfg{ID: "uid-" + mk, LoginName: "login-" + mk + "@example.org", Email: mk + "@mail.example", FullName: "Full " + mk,
			GivenName: "Given" + mk, Surname: "Sur" + mk, Username: "name-" + mk, UID: "id-" + mk,
			Custom: []CustomAttrCfg{{Name: "attr-" + mk, Format: "urn:oasis:names:tc:SAML:2.0:attrname-format:uri", Values: []string{"val-" + mk}}}})
	}
	return w
}

func c10Workloads() []c10Workload {
	pre := func(binding string, done bool) []Preseed {
		return []Preseed{
			{SP: 0, AuthRequestID: "_pre" + sessionMarker(900), RelayState: "relay" + sessionMarker(900), ACS: "https://sp0.example/" + spMarker(0) + "/acs", Binding: binding, Done: done, User: 0},
			{SP: 1, AuthRequestID: "_pre" + sessionMarker(901), RelayState: "relay" + sessionMarker(901), ACS: "https://sp1.example/" + spMarker(1) + "/acs", Binding: BindPost, Done: true, User: 1},
		}
	}
	const basic = "urn:oasis:names:tc:SAML:2.0:attrname-format:basic"
	return []c10Workload{
		{name: "sso-redirect-unsigned", pre: pre(BindPost, true), main: func(w *WorldCfg) *MsgSpec {
			return &MsgSpec{Kind: "sso", SP: 0, Binding: "redirect", ID: "_c10a", HasRelay: true, RelayState: "rs"}
		}},
		{name: "sso-post-signed", pre: pre(BindPost, true), main: func(w *WorldCfg) *MsgSpec {
			return &MsgSpec{Kind: "sso", SP: 1, Binding: "post", Sign: "rsa-sha256", ID: "_c10b", Style: Style{KeyInfo: true}}
		}},
		{name: "sso-redirect-signed", pre: pre(BindPost, true), main: func(w *WorldCfg) *MsgSpec {
			return &MsgSpec{Kind: "sso", SP: 1, Binding: "redirect", Sign: "rsa-sha1", ID: "_c10c", HasRelay: true, RelayState: "rs2"}
		}},
		{name: "callback-done-post", pre: pre(BindPost, true), main: func(w *WorldCfg) *MsgSpec { return &MsgSpec{Kind: "callback", Session: 0, IDMode: "session"} }},
		{name: "callback-done-redirect", pre: pre(BindRedirect, true), main: func(w *WorldCfg) *MsgSpec {
			return &MsgSpec{Kind: "callback", Session: 0, IDMode: "session", IDPlace: "form"}
		}},
		{name: "callback-pending", pre: pre(BindPost, false), main: func(w *WorldCfg) *MsgSpec { return &MsgSpec{Kind: "callback", Session: 0, IDMode: "session"} }},
		{name: "slo-post", pre: pre(BindPost, true), main: func(w *WorldCfg) *MsgSpec {
			return &MsgSpec{Kind: "slo", SP: 0, Binding: "post", ID: "_c10d", HasRelay: true, RelayState: "lrs", NameID: "x@example.org"}
		}},
		{name: "slo-redirect-no-nameid", pre: pre(BindPost, true), main: func(w *WorldCfg) *MsgSpec {
			// the principal is named by something else than a NameID (BaseID / EncryptedID in a real deployment)
			return &MsgSpec{Kind: "slo", SP: 1, Binding: "redirect", ID: "_c10g", NoNameID: true, SessionIndex: []string{"_s1"}}
		}},
		{name: "attrq-all", pre: pre(BindPost, true), main: func(w *WorldCfg) *MsgSpec {
			return &MsgSpec{Kind: "attrq", SP: 0, Binding: "soap", ID: "_c10e", User: 0, DestMode: "absent"}
		}},
		{name: "attrq-requested", pre: pre(BindPost, true), main: func(w *WorldCfg) *MsgSpec {
			return &MsgSpec{Kind: "attrq", SP: 0, Binding: "soap", ID: "_c10f", User: 1, DestMode: "absent", Requested: []CustomAttrCfg{{Name: "Email", Format: basic}}}
		}},
		{name: "metadata", pre: pre(BindPost, true), main: func(w *WorldCfg) *MsgSpec { return &MsgSpec{Kind: "metadata"} }},
		{name: "certificate", pre: pre(BindPost, true), main: func(w *WorldCfg) *MsgSpec { return &MsgSpec{Kind: "cert"} }},
		{name: "ready", pre: pre(BindPost, true), main: func(w *WorldCfg) *MsgSpec { return &MsgSpec{Kind: "ready"} }},
		{name: "ready-head", pre: pre(BindPost, true), main: func(w *WorldCfg) *MsgSpec { return &MsgSpec{Kind: "ready", Head: true} }},
	}
}

func c10Bystander(kind int) *MsgSpec {
	switch kind {
	case 1:
		return &MsgSpec{Kind: "callback", Session: 1, IDMode: "session", Bystander: true}
	case 2:
		return &MsgSpec{Kind: "metadata", Bystander: true}
	}
	return nil
}

type c10Fault struct {
	idx  int
	kind string
	op   string // operation of the call the fault hits (used to align a bystander with it)
}

// c10Plan: main task (id 0) gets the listed faults at the listed call indices; the bystander (id 1) moves one step
// right after each fault and finishes last.
func c10Plan(variant int, wl *c10Workload, by int, faults []c10Fault, seed uint64, worker int) *Plan {
	return c10PlanWarm(variant, wl, by, 0, 0, faults, seed, worker)
}

// c10PlanWarm: with warm != 0 a request of another session is served to completion on the same provider first, so that
// whatever the library remembers from an earlier success is in place when the fault strikes.
// align (with a bystander): 1 = before a fault strikes, the bystander is run up to its own call of the very operation the
// fault hits, so that both requests are inside that operation at once (a library that lets concurrent requests share one
// lookup makes the bystander wait for the doomed call); 2 = the bystander additionally completes that call while the main
// request is still inside its own.
func c10PlanWarm(variant int, wl *c10Workload, by int, warm int, align int, faults []c10Fault, seed uint64, worker int) *Plan {
	p := &Plan{Format: 1, Property: "C10", Mode: "serial", Family: "enumerate:" + wl.name, Seed: seed, Worker: worker}
	p.World = c10BaseWorld(variant)
	p.World.Presessions = append([]Preseed(nil), wl.pre...)
	m := wl.main(&p.World)
	if variant == 2 {
		m.Host = hostMarker(0) + ".idp.example"
	}
	first := 0
	if warm != 0 {
		wm := &MsgSpec{Kind: "callback", Session: 1, IDMode: "session"}
		if warm == 2 {
			wm = &MsgSpec{Kind: "metadata"}
		}
		wm.Host = m.Host
		p.Steps = append(p.Steps, Step{K: "send", Msg: wm}, Step{K: "finish", ByID: true, Pick: 0})
		first = 1
	}
	p.Steps = append(p.Steps, Step{K: "send", Msg: m})
	if b := c10Bystander(by); b != nil {
		if variant == 2 {
			b.Host = hostMarker(0) + ".idp.example"
		}
		p.Steps = append(p.Steps, Step{K: "send", Msg: b})
	}
	at := 0
	for _, f := range faults {
		for ; at < f.idx; at++ {
			p.Steps = append(p.Steps, Step{K: "resume", ByID: true, Pick: first})
		}
		if by != 0 && align > 0 && f.op != "" {
			p.Steps = append(p.Steps, Step{K: "until", Pick: first + 1, Op: f.op})
			if align == 2 {
				p.Steps = append(p.Steps, Step{K: "resume", ByID: true, Pick: first + 1})
			}
		}
		p.Steps = append(p.Steps, Step{K: "resume", ByID: true, Pick: first, Fault: f.kind})
		at++
		if by != 0 {
			p.Steps = append(p.Steps, Step{K: "resume", ByID: true, Pick: first + 1})
		}
	}
	p.Steps = append(p.Steps, Step{K: "finish", ByID: true, Pick: first})
	if by != 0 {
		p.Steps = append(p.Steps, Step{K: "finish", ByID: true, Pick: first + 1})
	}
	p.Recovery = true
	return p
}

// enumerateC10 runs the complete single-fault space and the complete pair space of the catalogue; the scenarios are
// dealt round-robin to the workers. It returns true when a violation was reported.
func enumerateC10(t *testing.T, c *collector, workers int) bool {
	wls := c10Workloads()
	scen := 0
	for variant := 0; variant < 4; variant++ {
		for wi := range wls {
			for byw := 0; byw < 9; byw++ {
				// 0..2: bystander settings without warm-up; 3, 4: warm-up by a callback / a metadata request, no bystander;
				// 5..8: callback / metadata bystander aligned with the faulted call (see c10PlanWarm)
				by, warm, align := byw, 0, 0
				switch {
				case byw >= 5:
					by, align = 1+(byw-5)%2, 1+(byw-5)/2
				case byw >= 3:
					by, warm = 0, byw-2
				}
				scen++
				if workers > 0 && scen%workers != *fWorker%workers {
					continue
				}
				wl := &wls[wi]
				mainIdx := 0
				if warm != 0 {
					mainIdx = 1
				}
				base := c10PlanWarm(variant, wl, by, warm, align, nil, *fSeed, *fWorker)
				bres := Run(t, base)
				if bres.HarnessErr != "" {
					c.out.HarnessErr = bres.HarnessErr
					return true
				}
				c.add(bres)
				c.out.Enumerated++
				if v := c.triage(bres, true); v != nil {
					c.report(t, base, *v, len(base.Steps))
					return true
				}
				if len(bres.Tasks) == 0 {
					continue
				}
				bsig := ""
				if by != 0 && len(bres.Tasks) > 1 {
					bsig = replySummary(bres.Tasks[1])
				}
				if len(bres.Tasks) <= mainIdx {
					continue
				}
				trace := bres.Tasks[mainIdx].Calls
				for i := range trace {
					for _, k := range firstFaultKindsFor(trace[i].Op) {
						p1 := c10PlanWarm(variant, wl, by, warm, align, []c10Fault{{i, k, trace[i].Op}}, *fSeed, *fWorker)
						p1.BystanderSig = bsig
						r1 := Run(t, p1)
						if r1.HarnessErr != "" {
							c.out.HarnessErr = r1.HarnessErr
							return true
						}
						c.add(r1)
						c.out.Enumerated++
						if v := c.triage(r1, true); v != nil {
							c.report(t, p1, *v, len(p1.Steps))
							return true
						}
						// pairs: second fault anywhere in the trace as it unfolds after the first
						if len(r1.Tasks) <= mainIdx {
							continue
						}
						t1 := r1.Tasks[mainIdx].Calls
						for j := i + 1; j < len(t1); j++ {
							for _, k2 := range faultKindsFor(t1[j].Op) {
								p2 := c10PlanWarm(variant, wl, by, warm, align, []c10Fault{{i, k, trace[i].Op}, {j, k2, t1[j].Op}}, *fSeed, *fWorker)
								p2.BystanderSig = bsig
								r2 := Run(t, p2)
								if r2.HarnessErr != "" {
									c.out.HarnessErr = r2.HarnessErr
									return true
								}
								c.add(r2)
								c.out.Enumerated++
								if v := c.triage(r2, true); v != nil {
									c.report(t, p2, *v, len(p2.Steps))
									return true
								}
							}
						}
					}
				}
			}
		}
	}
	c.out.Exhaustive = true
	return false
}

func (g G) planC10() *Plan {
	o := &mixOpts{family: "random-fault-schedules",
		world: worldOpts{maxSPs: 3, maxUsers: 3, maxReplicas: 2, hardPct: 10, signReqVariety: false, parkVariety: true, customAttrs: true, issuerVariety: true, metaVariety: true},
		wSSO:  14, wCallback: 16, wSLO: 6, wAttrQ: 10, wMeta: 8, wCert: 4, wReady: 4, wHealthz: 1,
		wResume: 40, wFinish: 8, wComplete: 8, wAdvance: 2, wRestart: 1, wDelReq: 1, wRotate: 2, wRotateMeta: 1, wUnhealthy: 1,
		faultPcts: []int{15, 30, 50}, bodyFaultPct: 5, writeFaultPct: 3, hostVariety: true,
		minSteps: 4, maxSteps: 40, maxPre: 3, recoveryPct: 60, raceBias: true}
	p := g.planMix("C10", o)
	if g.chance("algbad", 8) {
		p.World.IDP.SigAlg = g.pick("algbadv", "", "http://www.w3.org/2000/09/xmldsig#dsa-sha1", "rsa-sha256", "urn:example:unusable")
	}
	if g.chance("metaalgbad", 8) {
		p.World.IDP.MetaSigAlg = g.pick("metaalgbadv", "http://www.w3.org/2000/09/xmldsig#dsa-sha1", "sha256", "urn:example:unusable")
	}
	return p
}
