package sim

// Recovery phase (C07 / C10, DESIGN §5): once faults have stopped, every registered service provider
// runs one plain conformant flow; progress is demanded within the flow's own two IdP requests.

import (
	"fmt"
)

func supportedOnly(c *SPCfg) bool {
	if len(c.ACS) == 0 {
		return false
	}
	for _, a := range c.ACS {
		if a.Binding != BindPost && a.Binding != BindRedirect {
			return false
		}
	}
	return true
}

func validSigAlg(a string) bool { return a == AlgRSASHA1 || a == AlgRSASHA256 || a == AlgRSASHA512 }

func (w *World) finishTask(t *Task) {
	for guard := 0; guard < 1000; guard++ {
		w.mu.Lock()
		st := t.st()
		w.mu.Unlock()
		if st != tsParked {
			return
		}
		w.resumeTask(t, "")
		w.settle()
	}
}

func (w *World) recoveryPhase() {
	if len(w.replicas) == 0 || len(w.cfg.Users) == 0 {
		return
	}
	for _, n := range w.sps {
		if !n.Registered || n.Deleted || n.Obj == nil || n.Cfg.Corrupt != nil || !supportedOnly(&n.Cfg) {
			continue
		}
		m := &MsgSpec{Kind: "sso", SP: n.Idx, Binding: "redirect", ID: fmt.Sprintf("_recovery%s", spMarker(n.Idx)), HasRelay: true,
			RelayState: "recovery-relay-" + spMarker(n.Idx), DestMode: "advertised", Recovery: true}
		if w.signingRequired(n) || isXSTrue(w.cfg.IDP.WantSigned) || w.cfg.IDP.WantSigned == "1" {
			if !n.Cfg.HasCert {
				continue
			}
			m.Sign = "rsa-sha256"
		}
		before := len(w.sessions)
		t := w.send(m)
		if t == nil {
			continue
		}
		w.finishTask(t)
		w.finalizeDone()
		if len(w.sessions) <= before {
			continue // the oracle reports the missing acceptance
		}
		se := w.sessions[len(w.sessions)-1]
		w.mu.Lock()
		se.DoneFlag = true
		se.UserID = w.cfg.Users[0].ID
		se.Version++
		w.mu.Unlock()
		w.hist.add("mutate", -1, fmt.Sprintf("complete session %d user %s (recovery)", se.Idx, se.UserID))
		cb := &MsgSpec{Kind: "callback", Session: se.Idx, IDMode: "session", IDPlace: "query", Recovery: true}
		if ct := w.send(cb); ct != nil {
			w.finishTask(ct)
		}
		w.finalizeDone()
	}
	if mt := w.send(&MsgSpec{Kind: "metadata", Recovery: true}); mt != nil {
		w.finishTask(mt)
	}
	w.finalizeDone()
}

// oracleRecovery: after Heal, conformant flows make progress within their own requests.
func oracleRecovery(r *Result) {
	w := r.World
	prop := r.Plan.Property
	for _, t := range r.Tasks {
		if !t.Recovery || t.Reply == nil || t.Panic != "" {
			continue
		}
		w.probe("recovery_request")
		switch t.Msg.Kind {
		case "sso":
			if len(persisted(t)) != 1 || t.Reply.Status != 303 {
				r.violate(prop+" recovery", prop+":recovery:sso-not-accepted", "after faults stop, a plain conformant AuthnRequest is persisted and sent to login within its own request", replySummary(t), t.ID)
			}
		case "callback":
			if !validSigAlg(w.cfg.IDP.SigAlg) {
				continue
			}
			if !t.Reply.IsSuccess() {
				r.violate(prop+" recovery", prop+":recovery:callback-not-success", "after faults stop, the callback of a completed session yields a Success response", replySummary(t), t.ID)
			}
		case "metadata":
			if w.cfg.IDP.MetaSigAlg != "" && !validSigAlg(w.cfg.IDP.MetaSigAlg) {
				continue
			}
			if t.Reply.Status != 200 || t.Reply.Kind != RKMetadata {
				r.violate(prop+" recovery", prop+":recovery:metadata-not-served", "after faults stop, metadata is served", replySummary(t), t.ID)
			}
		}
	}
}
