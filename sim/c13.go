package sim

// C13 — logout responses go to the registered party and succeed only if valid.
// C12 — attribute queries disclose only requested data, to registered requesters.

import (
	"fmt"
	"sort"
	"strings"
)

func crNormalised(s string) string {
	return strings.ReplaceAll(strings.ReplaceAll(s, "\r\n", "\n"), "\r", "\n")
}

func oracleC13(r *Result) {
	w := r.World
	for _, t := range r.Tasks {
		if t.Msg.Kind != "slo" || t.Abandoned || t.Panic != "" || t.Reply == nil || writerFaultFired(t) {
			continue
		}
		rep := t.Reply
		bad := func(rule, class, expected, observed string) {
			r.violate("C13 "+rule, "C13:slo:"+rule+class, expected, observed+"; sent: "+t.Sent.Summary, t.ID)
		}
		if rep.Msg == nil || rep.Msg.Kind != "LogoutResponse" {
			if rep.Status >= 400 && rep.Kind == RKText {
				continue // a plain HTTP error is not a Success
			}
			bad("reply-not-a-logoutresponse", ":"+rep.Kind, "a logout request is answered with one LogoutResponse", replySummary(t))
			continue
		}
		w.probe("logout_response_checked")
		m := rep.Msg
		v := viewSubmitted(t, "LogoutRequest")
		bodyBroken := bodyFaultFired(t) && !benignBody(t.Msg.BodyFault)
		rec := firstCall(t, "GetEntityByID")
		var cfg *SPCfg
		if rec != nil {
			cfg = rec.SPCfg
		}
		if m.Success {
			w.probe("logout_success")
			if v.Root != nil && v.Lenient && !bodyBroken {
				bad("success-for-request-not-well-formed", ":"+v.LenientWhy, "Success only for a request that decodes (well-formed XML)", v.LenientWhy)
			}
			switch {
			case v.Root == nil || bodyBroken:
				bad("success-for-undecodable-request", "", "Success only for a request that decodes", v.DecodeErr)
			default:
				is := v.Root.Childs(NSA, "Issuer")
				if cfg == nil || len(is) == 0 || is[len(is)-1].TextContent() != cfg.Entity {
					bad("success-for-unregistered-issuer", "", "Success only when the Issuer names a registered service provider", fmt.Sprintf("issuer elements: %d", len(is)))
				}
				if ii := v.Root.Attr("IssueInstant"); ii != "" {
					tt, ok := parseXSDateTime(ii)
					if !ok {
						if tt, ok = parseTimeCommaLenient(ii); ok {
							bad("success-for-unparseable-issueinstant", ":comma-as-decimal-separator", "a request is not issued in the future", ii)
						}
					}
					if !ok {
						bad("success-for-unparseable-issueinstant", "", "a request is not issued in the future", ii)
					} else if tt.After(t.TReturn) {
						bad("success-for-request-issued-in-the-future", "", "IssueInstant <= now", fmt.Sprintf("IssueInstant %s, request interval [%s, %s]", ii, t.TInvoke.UTC().Format(tsFmt), t.TReturn.UTC().Format(tsFmt)))
					} else if tt.Equal(t.TInvoke) && t.TInvoke.Equal(t.TReturn) {
						w.probe("now_equals_issueinstant")
					}
				}
				if na := v.Root.Attr("NotOnOrAfter"); na != "" {
					tt, ok := parseXSDateTime(na)
					if !ok {
						if tt, ok = parseTimeCommaLenient(na); ok {
							bad("success-for-unparseable-notonorafter", ":comma-as-decimal-separator", "a request has not passed its NotOnOrAfter", na)
						}
					}
					if !ok {
						bad("success-for-unparseable-notonorafter", "", "a request has not passed its NotOnOrAfter", na)
					} else if !tt.After(t.TInvoke) {
						bad("success-after-notonorafter", "", "now < NotOnOrAfter", fmt.Sprintf("NotOnOrAfter %s, request interval [%s, %s]", na, t.TInvoke.UTC().Format(tsFmt), t.TReturn.UTC().Format(tsFmt)))
					}
				}
			}
		} else {
			w.probe("logout_failure")
			if t.Sent.NotOnOrAfter != nil && truncFrac(*t.Sent.NotOnOrAfter, t.Msg.Style.Frac).Equal(t.TInvoke) {
				w.probe("now_equals_notonorafter")
			}
		}
		if v.Root != nil && !v.Lenient && !bodyBroken && v.FormErr == "" && schemaShapeKept(t.Msg) {
			if id := v.Root.Attr("ID"); m.InResponseTo != id {
				bad("inresponseto-not-echoed", ":"+v.Binding, fmt.Sprintf("InResponseTo = %q whenever the request could be decoded", id), fmt.Sprintf("%q (status %s)", m.InResponseTo, m.StatusCode))
			}
		}
		if !m.HasIssuer || m.Issuer != t.Sent.EntityID {
			bad("issuer", "", fmt.Sprintf("Issuer = %q", t.Sent.EntityID), fmt.Sprintf("%q", m.Issuer))
		}
		// delivery target
		first := ""
		if cfg != nil && len(cfg.SLO) > 0 {
			first = cfg.SLO[0].URL
		}
		switch rep.Kind {
		case RKXML:
			if m.Success && first != "" {
				bad("target", ":success-not-posted", "a Success response is posted to the first registered SingleLogoutService location "+first, "returned in the HTTP body")
			}
			if m.Destination != "" && m.Destination != first {
				bad("destination", ":body", "Destination names the registered location or nothing", m.Destination)
			}
		case RKForm:
			if first == "" || !urlEquivalent(rep.Target, first) {
				bad("target", ":unregistered-location", fmt.Sprintf("the message is posted only to the first registered SingleLogoutService location %q", first), fmt.Sprintf("form action %q", rep.Target))
			}
			if rep.Method != "POST" {
				bad("target", ":method", "posted", rep.Method)
			}
			if m.Destination != first {
				bad("destination", ":form", fmt.Sprintf("Destination = %q", first), m.Destination)
			}
			if rep.RelayState != v.Relay || rep.NRelay > 1 {
				cls := ":" + strClass(v.Relay)
				if crNormalised(v.Relay) == rep.RelayState {
					cls = ":cr-normalised-by-html-parser"
				}
				bad("relaystate", cls, fmt.Sprintf("RelayState %q unchanged", v.Relay), fmt.Sprintf("%q (%d fields)", rep.RelayState, rep.NRelay))
			}
			if rep.Form != nil && rep.Form.NForms != 1 {
				bad("target", ":several-forms", "one form", fmt.Sprint(rep.Form.NForms))
			}
		default:
			bad("target", ":"+rep.Kind, "posted to the registered location or returned in the body", replySummary(t))
		}
	}
}

// schemaShapeKept: the message still has the element structure the conformant generator produced (only attribute values,
// issuer text or transport parameters were changed). "Could be decoded" is only demanded of such messages: what a receiver
// makes of elements in unexpected places or namespaces is not something the statement fixes.
func schemaShapeKept(m *MsgSpec) bool {
	for _, tp := range m.Tamper {
		switch tp.Op {
		case "field", "issuer", "relay", "reorder":
		default:
			return false
		}
	}
	return true
}

func (g G) planC13() *Plan {
	o := &mixOpts{family: "logout",
		world: worldOpts{nilUnknownPct: 12, maxSPs: 3, maxUsers: 2, maxReplicas: 2, hardPct: 10, hardURLPct: 35, sloVariety: true, parkVariety: true, issuerVariety: true, endpointVariety: true,
			skewPct: 35, timeFormatVariety: true},
		wSLO: 55, wSSO: 3, wMeta: 2, wAttrQ: 2, wCallback: 2, wCert: 1, wResume: 22, wFinish: 12, wAdvance: 4, wRereg: 4, wDelSP: 2, wRestart: 1,
		devPct: 30, tamperPct: 10, timePct: 40, bodyFaultPct: 5, writeFaultPct: 2, rogueSPPct: 8, hostVariety: true,
		minSteps: 3, maxSteps: 30, autoFinishPct: 40}
	p := g.planMix("C13", o)
	for i := range p.Steps {
		if m := p.Steps[i].Msg; m != nil && m.Kind == "slo" && g.chance(fmt.Sprintf("hardrelay%d", i), 30) {
			m.HasRelay = true
			m.RelayState = g.text(fmt.Sprintf("hardrelayv%d", i), "lrelay", true)
		}
	}
	return p
}

// ---------------------------------------------------------------------------
// C12

func attrSet(list []string) []string {
	sort.Strings(list)
	return dedup(list)
}

func oracleC12(r *Result) {
	w := r.World
	for _, t := range r.Tasks {
		if t.Msg.Kind != "attrq" || t.Abandoned || t.Panic != "" || t.Reply == nil || writerFaultFired(t) {
			continue
		}
		rep := t.Reply
		disclosed := rep.IsSuccess()
		if rep.Doc != nil && len(rep.Doc.FindLocal("AttributeValue")) > 0 {
			disclosed = true
		}
		for _, h := range haystacks(t) {
			for i := range w.cfg.Users {
				if strings.Contains(string(h), userMarker(i)) {
					disclosed = true
				}
			}
		}
		if !disclosed {
			w.probe("attrq_refused")
			continue
		}
		w.probe("attrq_answered")
		bad := func(rule, expected, observed string) {
			r.violate("C12 "+rule, "C12:attrq:"+rule, expected, observed+"; sent: "+t.Sent.Summary, t.ID)
		}
		env, err := ParseXML(t.Sent.Body)
		if err != nil {
			// the statement does not name well-formedness; read forgivingly so that the named conditions can still be evaluated
			env, err = ParseXMLLenient(t.Sent.Body)
		}
		if err != nil || bodyFaultFired(t) && !benignBody(t.Msg.BodyFault) {
			w.probe("attrq_answered_unreadable_request")
			continue
		}
		var queries []*Node
		if env.NS == NSSOAP && env.Local == "Envelope" {
			for _, b := range env.Childs(NSSOAP, "Body") {
				queries = append(queries, b.Childs(NSP, "AttributeQuery")...)
			}
		}
		if len(queries) != 1 {
			w.probe("attrq_answered_with_unusual_envelope")
			if len(queries) == 0 {
				bad("answered-without-query", "user data only in answer to an AttributeQuery", fmt.Sprintf("%d AttributeQuery elements", len(queries)))
			}
			continue
		}
		q := queries[0]
		rec := firstCall(t, "GetEntityByID")
		is := q.Childs(NSA, "Issuer")
		if rec == nil || rec.SPCfg == nil || len(is) == 0 || is[len(is)-1].TextContent() != rec.SPCfg.Entity {
			bad("issuer-not-registered", "user data only when the Issuer is a registered service provider", fmt.Sprintf("%d Issuer elements, lookup %v", len(is), rec != nil && rec.SPCfg != nil))
			continue
		}
		cfg := rec.SPCfg
		if embeddedSigBears(q) {
			ok := false
			if cfg.HasCert {
				_, verr := VerifyEnveloped(q, certPub(Keys[mod(cfg.Key, NumKeys)].Cert))
				ok = verr == nil
			}
			if !ok {
				if len(q.Childs(NSDS, "Signature")) > 1 {
					bad("signature-does-not-verify:several-signature-elements", "any signature value the query carries verifies under the registered certificate", fmt.Sprintf("tamper=%v", t.Msg.Tamper))
					continue
				}
				bad("signature-does-not-verify", "any signature value the query carries verifies under the registered certificate", fmt.Sprintf("tamper=%v", t.Msg.Tamper))
			} else {
				w.probe("attrq_answered_with_valid_signature")
			}
		}
		if d := q.Attr("Destination"); d != "" {
			adv := w.IDPModel.Location(EPAttr, t.Sent.IdPIssuer)
			if d != adv {
				bad("destination-not-advertised", "Destination, when present, is the advertised attribute service location "+adv, d)
			} else {
				w.probe("attrq_answered_with_advertised_destination")
			}
		}
		if !rep.IsSuccess() || len(rep.Msg.Assertions) != 1 {
			bad("answer-shape", "one Success response with one assertion", replySummary(t))
			continue
		}
		m, a := rep.Msg, rep.Msg.Assertions[0]
		if m.InResponseTo != q.Attr("ID") {
			bad("inresponseto", fmt.Sprintf("InResponseTo = %q", q.Attr("ID")), m.InResponseTo)
		}
		if len(a.Audiences) != 1 || a.Audiences[0] != cfg.Entity {
			bad("audience", fmt.Sprintf("audience restricted to the requester %q", cfg.Entity), fmt.Sprintf("%q", a.Audiences))
		}
		if m.Issuer != t.Sent.EntityID {
			bad("issuer", fmt.Sprintf("Issuer = %q", t.Sent.EntityID), m.Issuer)
		}
		uc := firstCall(t, "SetUserinfoWithLoginName")
		// which of several Subject / NameID elements of a (schema-invalid) query is "the queried subject" is not fixed by the
		// statement: the lookup has to name one of them
		named := false
		for _, sj := range q.Childs(NSA, "Subject") {
			for _, nid := range sj.Childs(NSA, "NameID") {
				if uc != nil && len(uc.Args) > 0 && uc.Args[0] == nid.TextContent() {
					named = true
				}
			}
		}
		if uc == nil || uc.UserIdx < 0 || !named {
			bad("subject", "the answer describes the user storage resolved for the queried subject", fmt.Sprintf("lookup %v", uc != nil))
			continue
		}
		U := &w.cfg.Users[uc.UserIdx]
		if a.NameID != U.Username {
			bad("nameid", fmt.Sprintf("NameID = %q", U.Username), a.NameID)
		}
		// the filter, as a set
		type key struct{ n, f string }
		req := map[key]bool{}
		reqEls := q.Childs(NSA, "Attribute")
		for _, e := range reqEls {
			req[key{e.Attr("Name"), e.Attr("NameFormat")}] = true
		}
		var want []string
		last := map[string]int{}
		for i, c := range U.Custom {
			last[c.Name] = i
		}
		all := []CustomAttrCfg{}
		std := func(name, val string) {
			if val != "" {
				all = append(all, CustomAttrCfg{Name: name, Format: nfBasic, Values: []string{val}})
			}
		}
		std("Email", U.Email)
		std("SurName", U.Surname)
		std("FirstName", U.GivenName)
		std("FullName", U.FullName)
		std("UserName", U.Username)
		std("UserID", U.UID)
		for i, c := range U.Custom {
			if last[c.Name] == i {
				all = append(all, c)
			}
		}
		for _, c := range all {
			if len(reqEls) == 0 || req[key{c.Name, c.Format}] {
				want = append(want, fmt.Sprintf("%s|%s|%s|%q", c.Name, c.Format, c.Friendly, c.Values))
			}
		}
		if len(reqEls) > 0 {
			w.probe("attrq_filtered")
		}
		ws, gs := attrSet(want), attrSet(attrsOf(a))
		if strings.Join(ws, "\x00") != strings.Join(gs, "\x00") {
			bad("attribute-filter", fmt.Sprintf("exactly the user's attributes matching a requested (Name, NameFormat): %v", ws), fmt.Sprintf("%v", gs))
		}
		// inside a signed assertion
		sigs := a.Node.Childs(NSDS, "Signature")
		if len(sigs) != 1 {
			bad("assertion-not-signed", "the attributes are inside a signed assertion (one enveloped signature)", fmt.Sprintf("%d signatures", len(sigs)))
		} else if ref := sigs[0].Path(NSDS, "SignedInfo", NSDS, "Reference"); ref == nil || ref.Attr("URI") != "#"+a.ID {
			bad("assertion-signature-reference", "the signature references the assertion's ID", fmt.Sprintf("assertion %q", a.ID))
		}
	}
}

func (g G) planC12() *Plan {
	o := &mixOpts{family: "attribute-queries",
		world:  worldOpts{nilUnknownPct: 12, maxSPs: 3, maxUsers: 4, maxReplicas: 2, hardPct: 15, customAttrs: true, parkVariety: true, issuerVariety: true, endpointVariety: true, noCertPct: 15},
		wAttrQ: 55, wMeta: 2, wSSO: 2, wSLO: 2, wCallback: 2, wCert: 1, wResume: 25, wFinish: 12, wRotate: 4, wRereg: 3, wDelSP: 1, wRestart: 1, wAdvance: 2,
		devPct: 35, tamperPct: 25, faultPcts: []int{0, 0, 10, 25}, bodyFaultPct: 6, rogueSPPct: 10, hostVariety: true,
		minSteps: 3, maxSteps: 30, autoFinishPct: 35}
	return g.planMix("C12", o)
}
