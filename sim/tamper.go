package sim

// The network attacker's operators: manipulations of a message in flight,
// after the conformant SP signed it. Every operator that fires is counted.

import (
	"encoding/base64"
	"net/url"
	"strings"
)

func flipB64Char(s string, idx int) string {
	if s == "" {
		return s
	}
	i := mod(idx, len(s))
	b := []byte(s)
	switch {
	case b[i] == 'A':
		b[i] = 'B'
	case b[i] == '=':
		if i > 0 {
			return flipB64Char(s, i-1)
		}
	default:
		b[i] = 'A'
	}
	return string(b)
}

func insertAfterIssuer(doc string, ins string) string {
	// find the end tag of the first Issuer element
	i := strings.Index(doc, "Issuer>")
	if i < 0 {
		// no issuer: insert after the root start tag
		j := strings.Index(doc, ">")
		if strings.HasPrefix(doc, "<?xml") {
			k := strings.Index(doc, "?>")
			j = k + 2 + strings.Index(doc[k+2:], ">")
		}
		if j < 0 {
			return doc
		}
		return doc[:j+1] + ins + doc[j+1:]
	}
	// first "Issuer>" is the start tag unless attributes are present; find the closing one
	k := strings.Index(doc, "</")
	for k >= 0 {
		end := strings.Index(doc[k:], ">")
		if end < 0 {
			break
		}
		tag := doc[k+2 : k+end]
		if tag == "Issuer" || strings.HasSuffix(tag, ":Issuer") {
			return doc[:k+end+1] + ins + doc[k+end+1:]
		}
		nk := strings.Index(doc[k+2:], "</")
		if nk < 0 {
			break
		}
		k = k + 2 + nk
	}
	return doc
}

const bogusSig = `<ds:Signature xmlns:ds="http://www.w3.org/2000/09/xmldsig#"><ds:SignedInfo><ds:CanonicalizationMethod Algorithm="http://www.w3.org/2001/10/xml-exc-c14n#"/><ds:SignatureMethod Algorithm="http://www.w3.org/2001/04/xmldsig-more#rsa-sha256"/><ds:Reference URI="#_x"><ds:Transforms><ds:Transform Algorithm="http://www.w3.org/2000/09/xmldsig#enveloped-signature"/><ds:Transform Algorithm="http://www.w3.org/2001/10/xml-exc-c14n#"/></ds:Transforms><ds:DigestMethod Algorithm="http://www.w3.org/2001/04/xmlenc#sha256"/><ds:DigestValue>AAAAAAAAAAAAAAAAAAAAAAAAAAAAAAAAAAAAAAAAAAA=</ds:DigestValue></ds:Reference></ds:SignedInfo><ds:SignatureValue>Zm9yZ2VkIHNpZ25hdHVyZSB2YWx1ZQ==</ds:SignatureValue></ds:Signature>`

// tamperXML applies the XML-level operators of m.Tamper to the (possibly signed) document.
func (w *World) tamperXML(m *MsgSpec, sp *SPNode, s *Sent, doc string) string {
	for _, tp := range m.Tamper {
		before := doc
		switch tp.Op {
		case "field":
			k, v, _ := strings.Cut(tp.S, "=")
			if strings.HasPrefix(v, "@acs-") && len(sp.Cfg.ACS) > 0 {
				// a spelling of one of the SP's registered consumer URLs that is not the registered string
				reg := sp.Cfg.ACS[mod(tp.A, len(sp.Cfg.ACS))].URL
				switch v {
				case "@acs-upper":
					v = strings.ToUpper(reg)
				case "@acs-hostcase":
					v = strings.Replace(reg, "https://sp", "HTTPS://SP", 1)
				case "@acs-lead-space":
					v = " " + reg
				case "@acs-trail-space":
					v = reg + " "
				case "@acs-newline":
					v = reg + "\n"
				case "@acs-fold":
					v = strings.Replace(strings.Replace(reg, "s", "\u017f", 1), "k", "\u212a", 1) // long s, Kelvin sign: equal only under Unicode case folding
				case "@acs-slash":
					v = reg + "/"
				case "@acs-pct":
					v = strings.Replace(reg, "/acs", "/%61cs", 1)
				}
				if v == reg {
					v = reg + "#"
				}
				w.probe("request_names_a_respelled_registered_consumer_url")
			}
			if root, err := ParseXML([]byte(doc)); err == nil {
				found := false
				for i := range root.Attrs {
					if root.Attrs[i].Local == k && root.Attrs[i].Prefix == "" {
						root.Attrs[i].Value = v
						found = true
					}
				}
				if !found {
					root.Attrs = append(root.Attrs, XAttr{Local: k, Value: v})
				}
				doc = serialize(root)
			}
		case "issuer":
			if root, err := ParseXML([]byte(doc)); err == nil {
				if is := root.Child(NSA, "Issuer"); is != nil {
					is.Children = []*Node{{IsText: true, Text: tp.S, Parent: is}}
					doc = serialize(root)
				}
			}
		case "strip_sig":
			if root, err := ParseXML([]byte(doc)); err == nil {
				for _, sg := range root.FindAll(NSDS, "Signature") {
					if sg.Parent != nil {
						removeChild(sg.Parent, sg)
					}
				}
				doc = serialize(root)
			}
		case "ref_uri":
			if root, err := ParseXML([]byte(doc)); err == nil {
				for _, ref := range root.FindAll(NSDS, "Reference") {
					set := false
					for i := range ref.Attrs {
						if ref.Attrs[i].Local == "URI" {
							ref.Attrs[i].Value, set = tp.S, true
						}
					}
					if !set {
						ref.Attrs = append(ref.Attrs, XAttr{Local: "URI", Value: tp.S})
					}
				}
				doc = serialize(root)
			}
		case "drop_keyinfo":
			if root, err := ParseXML([]byte(doc)); err == nil {
				for _, k := range root.FindAll(NSDS, "KeyInfo") {
					removeChild(k.Parent, k)
				}
				doc = serialize(root)
			}
		case "foreign_keyinfo":
			if root, err := ParseXML([]byte(doc)); err == nil {
				for _, x := range root.FindAll(NSDS, "X509Certificate") {
					x.Children = []*Node{{IsText: true, Text: Keys[KeyRogue].CertB64, Parent: x}}
				}
				doc = serialize(root)
			}
		case "sigvalue_flip", "digest_flip", "empty_sigvalue":
			if root, err := ParseXML([]byte(doc)); err == nil {
				name := "SignatureValue"
				if tp.Op == "digest_flip" {
					name = "DigestValue"
				}
				for _, x := range root.FindAll(NSDS, name) {
					txt := stripWS(x.TextContent())
					if tp.Op == "empty_sigvalue" {
						txt = ""
					} else {
						txt = flipB64Char(txt, tp.A)
					}
					x.Children = []*Node{{IsText: true, Text: txt, Parent: x}}
				}
				doc = serialize(root)
			}
		case "wrap":
			// XML signature wrapping: the validly signed original is nested inside an attacker-made
			// request that carries different values at the top level.
			if root, err := ParseXML([]byte(doc)); err == nil {
				evil := cloneNode(root)
				orig := cloneNode(root)
				for i := range evil.Attrs {
					switch evil.Attrs[i].Local {
					case "ID":
						if mod(tp.A, 2) == 0 {
							evil.Attrs[i].Value = "_evil" + evil.Attrs[i].Value
						}
					case "AssertionConsumerServiceURL":
						evil.Attrs[i].Value = "https://evil.example/acs"
					}
				}
				if tp.S != "" {
					k, v, _ := strings.Cut(tp.S, "=")
					set := false
					for i := range evil.Attrs {
						if evil.Attrs[i].Local == k {
							evil.Attrs[i].Value = v
							set = true
						}
					}
					if !set {
						evil.Attrs = append(evil.Attrs, XAttr{Local: k, Value: v})
					}
				}
				if mod(tp.B, 2) == 0 {
					// the evil root keeps a copy of the Signature (still referencing the original's ID)
				} else {
					for _, sg := range evil.Childs(NSDS, "Signature") {
						removeChild(evil, sg)
					}
				}
				ext := &Node{Prefix: root.Prefix, Local: "Extensions", NS: NSP, Parent: evil}
				orig.Parent = ext
				// carry the namespace declarations down so the nested copy stays well-formed on its own terms
				ext.Children = []*Node{orig}
				// Extensions belongs after Issuer/Signature
				pos := 0
				for i, c := range evil.Children {
					if c.Is(NSA, "Issuer") || c.Is(NSDS, "Signature") {
						pos = i + 1
					}
				}
				rest := append([]*Node{ext}, evil.Children[pos:]...)
				evil.Children = append(evil.Children[:pos:pos], rest...)
				doc = serialize(evil)
			}
		case "bogus_sig":
			doc = insertAfterIssuer(doc, bogusSig)
		case "resign":
			if root, err := ParseXML([]byte(doc)); err == nil {
				for _, sg := range root.Childs(NSDS, "Signature") {
					removeChild(root, sg)
				}
				plain := insertAfterIssuer(serialize(root), sigMarker)
				alg := AlgRSASHA256
				if tp.S != "" {
					alg = sigAlgURI(tp.S)
				}
				if signed, err := SignEnvelopedText(plain, Keys[mod(tp.A, NumKeys)], SignOpts{SigAlg: alg, Prefix: "ds", KeyInfo: mod(tp.B, 2) == 0}); err == nil {
					doc = signed
				}
			}
		case "dropElem", "dupElem", "emptyElem", "dropAttr", "emptyAttr", "dupAttr":
			doc, _ = structEdit(doc, tp.Op, tp.A)
		case "bitflip", "truncate", "insert", "replace":
			doc = string(applyCorrupt([]byte(doc), &Corrupt{Kind: tp.Op, A: tp.A, B: tp.B, S: tp.S}))
		default:
			continue
		}
		if doc != before {
			w.fire("tamper_" + tp.Op)
		}
	}
	return doc
}

// tamperParams applies form-level operators (POST binding).
func (w *World) tamperParams(m *MsgSpec, sp *SPNode, s *Sent, form url.Values, binding string) {
	for _, tp := range m.Tamper {
		switch tp.Op {
		case "relay":
			form.Set("RelayState", tp.S)
			s.Relay, s.HasRelay = tp.S, true
			w.fire("tamper_relay")
		case "encoding":
			form.Set("SAMLEncoding", tp.S)
			w.fire("tamper_encoding")
		case "add_sigparams":
			form.Set("SigAlg", AlgRSASHA256)
			form.Set("Signature", base64.StdEncoding.EncodeToString([]byte("forged signature value")))
			w.fire("tamper_add_sigparams")
		case "add_sigalg":
			form.Set("SigAlg", AlgRSASHA256)
			w.fire("tamper_add_sigalg")
		case "b64_flip":
			form.Set("SAMLRequest", flipB64Char(form.Get("SAMLRequest"), tp.A))
			w.fire("tamper_b64_flip")
		case "b64_garbage":
			// the value is a complete base64 text followed by something that is not
			form.Set("SAMLRequest", form.Get("SAMLRequest")+tp.S)
			w.fire("tamper_b64_garbage")
		case "double_encode":
			// the value is percent-encoded twice on the wire: after the one decoding a form parser applies it still carries escapes
			v := form.Get(tp.S)
			if tp.S == "SAMLEncoding" && v == "" {
				v = EncDeflate
			}
			if e := url.QueryEscape(v); e != v {
				form.Set(tp.S, e)
				w.fire("tamper_double_encode")
			}
		case "drop_param":
			form.Del(tp.S)
			w.fire("tamper_drop_param")
		case "empty_param":
			form.Set(tp.S, "")
			w.fire("tamper_empty_param")
		case "post_deflate":
			// move to the other binding's encoding inside a POST form
			raw, _ := base64.StdEncoding.DecodeString(form.Get("SAMLRequest"))
			form.Set("SAMLRequest", base64.StdEncoding.EncodeToString(deflateRaw(raw, 9)))
			form.Set("SAMLEncoding", EncDeflate)
			w.fire("tamper_move_binding")
		}
	}
}

// tamperRawQuery applies query-level operators (Redirect binding) to the raw query string.
func (w *World) tamperRawQuery(m *MsgSpec, sp *SPNode, s *Sent, q string) string {
	for _, tp := range m.Tamper {
		ps := splitRawQuery(q)
		switch tp.Op {
		case "relay":
			found := false
			for i := range ps {
				if ps[i].Key == "RelayState" {
					ps[i].RawVal = pctEncode(tp.S, m.Style.Enc)
					found = true
				}
			}
			if !found {
				ps = append(ps, rawParam{"RelayState", pctEncode(tp.S, m.Style.Enc)})
			}
			s.Relay, s.HasRelay = tp.S, true
			w.fire("tamper_relay")
		case "strip_sigparams":
			var out []rawParam
			for _, p := range ps {
				if p.Key != "Signature" && p.Key != "SigAlg" {
					out = append(out, p)
				}
			}
			ps = out
			w.fire("tamper_strip_sig")
		case "drop_param":
			var out []rawParam
			for _, p := range ps {
				if p.Key != tp.S {
					out = append(out, p)
				}
			}
			ps = out
			w.fire("tamper_drop_param")
		case "empty_param":
			found := false
			for i := range ps {
				if ps[i].Key == tp.S {
					ps[i].RawVal = ""
					found = true
				}
			}
			if !found {
				ps = append(ps, rawParam{tp.S, ""})
			}
			w.fire("tamper_empty_param")
		case "blank_sig":
			var out []rawParam
			for _, p := range ps {
				if p.Key != "Signature" && (p.Key != "SigAlg" || tp.A == 1) {
					out = append(out, p)
				}
			}
			ps = append(out, rawParam{"Signature", tp.S})
			w.fire("tamper_blank_sig")
		case "sig_flip":
			for i := range ps {
				if ps[i].Key == "Signature" {
					dec, _ := pctDecode(ps[i].RawVal)
					ps[i].RawVal = pctEncode(flipB64Char(dec, tp.A), m.Style.Enc)
					w.fire("tamper_sig_flip")
				}
			}
		case "swap_sigalg":
			for i := range ps {
				if ps[i].Key == "SigAlg" {
					dec, _ := pctDecode(ps[i].RawVal)
					other := AlgRSASHA1
					if dec == AlgRSASHA1 {
						other = AlgRSASHA256
					}
					if tp.S != "" {
						other = tp.S
					}
					ps[i].RawVal = pctEncode(other, m.Style.Enc)
					w.fire("tamper_swap_sigalg")
				}
			}
		case "dsa_forge":
			// a syntactically valid DSA signature value (ASN.1 SEQUENCE{1,1}) under a DSA algorithm URI, against whatever key is registered
			var out []rawParam
			for _, p := range ps {
				if p.Key != "Signature" && p.Key != "SigAlg" {
					out = append(out, p)
				}
			}
			alg := "http://www.w3.org/2000/09/xmldsig#dsa-sha1"
			if mod(tp.A, 2) == 1 {
				alg = "http://www.w3.org/2009/xmldsig11#dsa-sha256"
			}
			ps = append(out, rawParam{"SigAlg", pctEncode(alg, m.Style.Enc)}, rawParam{"Signature", pctEncode("MAYCAQECAQE=", m.Style.Enc)})
			w.fire("tamper_dsa_forge")
		case "add_sigparams":
			ps = append(ps, rawParam{"SigAlg", pctEncode(AlgRSASHA256, m.Style.Enc)}, rawParam{"Signature", pctEncode(base64.StdEncoding.EncodeToString([]byte("forged signature value")), m.Style.Enc)})
			w.fire("tamper_add_sigparams")
		case "add_sigalg":
			ps = append(ps, rawParam{"SigAlg", pctEncode(AlgRSASHA256, m.Style.Enc)})
			w.fire("tamper_add_sigalg")
		case "foreign_sig":
			// re-sign the query as it stands with another key
			var base []rawParam
			for _, p := range ps {
				if p.Key != "Signature" {
					base = append(base, p)
				}
			}
			ps = base
			w.fire("tamper_foreign_sig")
			q = joinRaw(ps)
			if sr, err := resignRawQuery(q, Keys[mod(tp.A, NumKeys)], m.Style.Enc); err == nil {
				q = sr
			}
			continue
		case "double_encode":
			found := false
			for i := range ps {
				if ps[i].Key == tp.S {
					found = true
					dec, _ := pctDecode(ps[i].RawVal)
					if e := url.QueryEscape(url.QueryEscape(dec)); e != url.QueryEscape(dec) {
						ps[i].RawVal = e
						w.fire("tamper_double_encode")
					}
				}
			}
			if !found && tp.S == "SAMLEncoding" {
				ps = append(ps, rawParam{"SAMLEncoding", url.QueryEscape(url.QueryEscape(EncDeflate))})
				w.fire("tamper_double_encode")
			}
		case "encoding":
			var out []rawParam
			for _, p := range ps {
				if p.Key != "SAMLEncoding" {
					out = append(out, p)
				}
			}
			ps = append(out, rawParam{"SAMLEncoding", pctEncode(tp.S, m.Style.Enc)})
			w.fire("tamper_encoding")
		case "b64_flip":
			for i := range ps {
				if ps[i].Key == "SAMLRequest" {
					dec, _ := pctDecode(ps[i].RawVal)
					ps[i].RawVal = pctEncode(flipB64Char(dec, tp.A), m.Style.Enc)
					w.fire("tamper_b64_flip")
				}
			}
		case "b64_garbage":
			for i := range ps {
				if ps[i].Key == "SAMLRequest" {
					dec, _ := pctDecode(ps[i].RawVal)
					ps[i].RawVal = pctEncode(dec+tp.S, m.Style.Enc)
					w.fire("tamper_b64_garbage")
				}
			}
		case "deflate_cut":
			// the DEFLATE stream ends early — after the bytes that hold the complete document (padded with a trailing comment), so a
			// reader that stops at the end of the root element never notices
			for i := range ps {
				if ps[i].Key == "SAMLRequest" && s.XML != "" {
					lvl := 9
					if tp.B == 1 {
						lvl = 0 // stored blocks
					}
					raw := deflateRaw([]byte(s.XML+"\n<!-- "+strings.Repeat("padding ", 40)+"-->\n"), lvl)
					if n := mod(tp.A, 16) + 1; len(raw) > n+8 {
						raw = raw[:len(raw)-n]
					}
					ps[i].RawVal = pctEncode(base64.StdEncoding.EncodeToString(raw), m.Style.Enc)
					w.fire("tamper_deflate_cut")
				}
			}
		case "dup_param":
			for _, p := range ps {
				if p.Key == tp.S {
					ps = append(ps, rawParam{p.Key, p.RawVal + "x"})
					w.fire("tamper_dup_param")
					break
				}
			}
		case "truncate_query":
			q = joinRaw(ps)
			if len(q) > 0 {
				q = q[:mod(tp.A, len(q))]
			}
			w.fire("truncate_query")
			continue
		case "reorder":
			// legal for a conformant SP: parameter order in the URL is free
			if len(ps) > 1 {
				k := mod(tp.A, len(ps))
				ps = append(ps[k:], ps[:k]...)
			}
		default:
			continue
		}
		q = joinRaw(ps)
	}
	return q
}

func resignRawQuery(q string, kp *KeyPair, enc int) (string, error) {
	ps := splitRawQuery(q)
	msg, _ := firstRaw(ps, "SAMLRequest")
	relay, nr := firstRaw(ps, "RelayState")
	alg, na := firstRaw(ps, "SigAlg")
	if na == 0 {
		alg = pctEncode(AlgRSASHA256, enc)
		ps = append(ps, rawParam{"SigAlg", alg})
	}
	algDec, _ := pctDecode(alg)
	h, ok := hashFor(algDec)
	if !ok {
		h, _ = hashFor(AlgRSASHA256)
	}
	signed := "SAMLRequest=" + msg
	if nr > 0 {
		signed += "&RelayState=" + relay
	}
	signed += "&SigAlg=" + alg
	sv, err := rsaSign(kp, h, []byte(signed))
	if err != nil {
		return "", err
	}
	ps = append(ps, rawParam{"Signature", pctEncode(base64.StdEncoding.EncodeToString(sv), enc)})
	return joinRaw(ps), nil
}
