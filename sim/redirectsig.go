package sim

// Oracle 3: SAML HTTP-Redirect binding signature (Bindings §3.4.4.1), applied
// to the raw query string actually sent. Also the conformant signer used by
// the simulated service providers.

import (
	"bytes"
	"compress/flate"
	"crypto/rsa"
	"encoding/base64"
	"fmt"
	"io"
	"strings"
)

type rawParam struct{ Key, RawVal string }

func splitRawQuery(q string) []rawParam {
	var out []rawParam
	for _, part := range strings.Split(q, "&") {
		if part == "" {
			continue
		}
		k, v, _ := strings.Cut(part, "=")
		out = append(out, rawParam{k, v})
	}
	return out
}

// pctDecode decodes %XX and '+' (query convention). ok=false on malformed escapes.
func pctDecode(s string) (string, bool) {
	var sb strings.Builder
	for i := 0; i < len(s); i++ {
		switch s[i] {
		case '%':
			if i+2 >= len(s) {
				return "", false
			}
			h, ok1 := unhex(s[i+1])
			l, ok2 := unhex(s[i+2])
			if !ok1 || !ok2 {
				return "", false
			}
			sb.WriteByte(h<<4 | l)
			i += 2
		case '+':
			sb.WriteByte(' ')
		default:
			sb.WriteByte(s[i])
		}
	}
	return sb.String(), true
}

func unhex(c byte) (byte, bool) {
	switch {
	case c >= '0' && c <= '9':
		return c - '0', true
	case c >= 'a' && c <= 'f':
		return c - 'a' + 10, true
	case c >= 'A' && c <= 'F':
		return c - 'A' + 10, true
	}
	return 0, false
}

func firstRaw(ps []rawParam, key string) (string, int) {
	n := 0
	v := ""
	for _, p := range ps {
		if p.Key == key {
			if n == 0 {
				v = p.RawVal
			}
			n++
		}
	}
	return v, n
}

// VerifyRedirectQuery verifies the signature of a redirect-binding message.
// msgParam is "SAMLResponse" or "SAMLRequest".
func VerifyRedirectQuery(rawQuery, msgParam string, pub *rsa.PublicKey) error {
	ps := splitRawQuery(rawQuery)
	msg, nm := firstRaw(ps, msgParam)
	relay, nr := firstRaw(ps, "RelayState")
	alg, na := firstRaw(ps, "SigAlg")
	sig, ns := firstRaw(ps, "Signature")
	if nm != 1 {
		return fmt.Errorf("%s occurs %d times", msgParam, nm)
	}
	if ns != 1 || na != 1 || nr > 1 {
		return fmt.Errorf("Signature occurs %d, SigAlg %d, RelayState %d times", ns, na, nr)
	}
	algDec, ok := pctDecode(alg)
	if !ok {
		return fmt.Errorf("SigAlg not percent-decodable")
	}
	h, ok := hashFor(algDec)
	if !ok {
		return fmt.Errorf("SigAlg %q is not a known signature algorithm URI", abbreviate(algDec, 120))
	}
	sigDec, ok := pctDecode(sig)
	if !ok {
		return fmt.Errorf("Signature not percent-decodable")
	}
	// '+' inside a base64 value must have been escaped; pctDecode turned a raw '+' into ' '.
	sv, err := base64.StdEncoding.DecodeString(sigDec)
	if err != nil {
		return fmt.Errorf("Signature (after one percent-decoding) is not base64: %v", err)
	}
	signed := msgParam + "=" + msg
	if nr == 1 {
		signed += "&RelayState=" + relay
	}
	signed += "&SigAlg=" + alg
	if err := rsa.VerifyPKCS1v15(pub, h, sum(h, []byte(signed)), sv); err != nil {
		return fmt.Errorf("signature does not verify over %q…: %v", abbreviate(signed, 160), err)
	}
	return nil
}

// Percent-encoding styles a conformant SP may use.
const (
	EncUpper   = 0 // %2F, space as +
	EncLower   = 1 // %2f, space as +
	EncPct20   = 2 // %2F, space as %20
	EncMinimal = 3 // upper hex, also leaves -_.~ and a few sub-delims legal in a query value unescaped (same as Upper for our alphabets)
	EncGoLike  = 4 // exactly what Go's url.QueryEscape produces
)

func pctEncode(s string, style int) string {
	const up = "0123456789ABCDEF"
	const lo = "0123456789abcdef"
	hex := up
	if style == EncLower {
		hex = lo
	}
	var sb strings.Builder
	for i := 0; i < len(s); i++ {
		c := s[i]
		switch {
		case c >= 'a' && c <= 'z', c >= 'A' && c <= 'Z', c >= '0' && c <= '9', c == '-', c == '_', c == '.', c == '~':
			sb.WriteByte(c)
		case c == ' ' && style != EncPct20:
			sb.WriteByte('+')
		default:
			sb.WriteByte('%')
			sb.WriteByte(hex[c>>4])
			sb.WriteByte(hex[c&15])
		}
	}
	return sb.String()
}

func deflateRaw(b []byte, level int) []byte {
	var buf bytes.Buffer
	w, _ := flate.NewWriter(&buf, level)
	w.Write(b)
	w.Close()
	return buf.Bytes()
}

func inflateRaw(b []byte, limit int64) ([]byte, error) {
	r := flate.NewReader(bytes.NewReader(b))
	defer r.Close()
	return io.ReadAll(io.LimitReader(r, limit))
}

// SignedRedirect is what a conformant SP signed: the exact octet string.
type SignedRedirect struct {
	RawQuery string // full query to send, including Signature
	Signed   string // the octets that were signed
}

// BuildRedirectQuery builds a redirect-binding query for a request message.
func BuildRedirectQuery(msgParam string, xmlMsg []byte, relay string, hasRelay bool, sigAlg string, kp *KeyPair, style int, deflateLevel int) (*SignedRedirect, error) {
	b64 := base64.StdEncoding.EncodeToString(deflateRaw(xmlMsg, deflateLevel))
	q := msgParam + "=" + pctEncode(b64, style)
	if hasRelay {
		q += "&RelayState=" + pctEncode(relay, style)
	}
	if sigAlg == "" {
		return &SignedRedirect{RawQuery: q}, nil
	}
	h, ok := hashFor(sigAlg)
	if !ok {
		return nil, fmt.Errorf("unsupported sigalg")
	}
	q += "&SigAlg=" + pctEncode(sigAlg, style)
	sv, err := rsa.SignPKCS1v15(nil, kp.Key, h, sum(h, []byte(q)))
	if err != nil {
		return nil, err
	}
	return &SignedRedirect{RawQuery: q + "&Signature=" + pctEncode(base64.StdEncoding.EncodeToString(sv), style), Signed: q}, nil
}
