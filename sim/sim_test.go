package sim

import (
	"encoding/json"
	"flag"
	"fmt"
	"hash/fnv"
	"os"
	"path/filepath"
	"sort"
	"strings"
	"testing"
	"time"

	"pgregory.net/rapid"
)

var (
	fProp      = flag.String("prop", "", "property id")
	fFamily    = flag.String("family", "", "scenario family (default: all families of the property, chosen per run)")
	fTier      = flag.String("tier", "quick", "quick | thorough")
	fSeed      = flag.Uint64("seed", 1, "VERIF_SEED")
	fWorker    = flag.Int("worker", 0, "worker index")
	fMaxRuns   = flag.Int("maxruns", 1000, "maximum number of simulated runs for this worker")
	fBudget    = flag.Duration("budget", 20*time.Second, "wall-clock budget for this worker")
	fOut       = flag.String("out", "", "worker result file (JSON)")
	fKnown     = flag.String("known", "", "known findings file")
	fReplay    = flag.String("replay", "", "replay file to execute")
	fReplayDir = flag.String("replaydir", "", "directory for replay files")
	fTrace     = flag.Bool("trace", false, "print the history of a replay")
	fWorkers   = flag.Int("workers", 1, "total number of workers (enumeration is dealt round-robin)")
	fRealIDs   = flag.Int("realids", 0, "C15 ID stage: number of IDs to draw from the real randomness source")
	fDigests   = flag.Int("digests", 0, "determinism self-test: print the history digests of this many plans")
	fPrefix    = flag.String("prefixreplay", "", "prefix replay file to execute")
	fMode      = flag.String("mode", "serial", "serial | race")
	fBeginLog  = flag.String("beginlog", "", "race mode: file that receives the plan about to run")
)

func splitmix(x uint64) uint64 {
	x += 0x9e3779b97f4a7c15
	x = (x ^ (x >> 30)) * 0xbf58476d1ce4e5b9
	x = (x ^ (x >> 27)) * 0x94d049bb133111eb
	return x ^ (x >> 31)
}

type KnownFinding struct {
	Status   string `json:"status"`
	Property string `json:"property"`
	Key      string `json:"key"`
	What     string `json:"what"`
	Commit   string `json:"commit,omitempty"`
}

func loadKnown(path string) map[string]KnownFinding {
	out := map[string]KnownFinding{}
	if path == "" {
		return out
	}
	b, err := os.ReadFile(path)
	if err != nil {
		return out
	}
	var list []KnownFinding
	if json.Unmarshal(b, &list) != nil {
		return out
	}
	for _, k := range list {
		if k.Status == "known" {
			out[k.Key] = k
		}
	}
	return out
}

// fakeTB lets rapid report a failure without failing the worker's own test.
type fakeTB struct {
	failed bool
	logs   []string
}

func (f *fakeTB) Helper()                  {}
func (f *fakeTB) Name() string             { return "sim" }
func (f *fakeTB) Logf(s string, a ...any)  {}
func (f *fakeTB) Log(a ...any)             {}
func (f *fakeTB) Skipf(s string, a ...any) {}
func (f *fakeTB) Skip(a ...any)            {}
func (f *fakeTB) SkipNow()                 {}
func (f *fakeTB) Errorf(s string, a ...any) {
	f.failed = true
	f.logs = append(f.logs, fmt.Sprintf(s, a...))
}
func (f *fakeTB) Error(a ...any) { f.failed = true }
func (f *fakeTB) Fatalf(s string, a ...any) {
	f.failed = true
	f.logs = append(f.logs, fmt.Sprintf(s, a...))
}
func (f *fakeTB) Fatal(a ...any) { f.failed = true }
func (f *fakeTB) FailNow()       { f.failed = true }
func (f *fakeTB) Fail()          { f.failed = true }
func (f *fakeTB) Failed() bool   { return f.failed }

// PrefixReplay reproduces a violation that depends on state the library carries from one simulated run to the next inside
// one process (package-level caches): the worker's rapid seed is replayed from its first case up to the failing one.
type PrefixReplay struct {
	Format    string `json:"format"` // "prefix"
	Prop      string `json:"property"`
	Family    string `json:"family,omitempty"`
	Mode      string `json:"mode"`
	Seed      uint64 `json:"seed"`
	Worker    int    `json:"worker"`
	RapidSeed uint64 `json:"rapidSeed"`
	Checks    int    `json:"checks"`
	Case      int    `json:"case"` // 1-based index of the failing case within the batch
	Key       string `json:"key"`
	Rule      string `json:"rule"`
	FirstPlan *Plan  `json:"failing_plan_unminimised"`
}

type WorkerViolation struct {
	ViolationRec
	PrefixReplay string `json:"prefix_replay,omitempty"`
	Replay       string `json:"replay"`
	StepsBefore  int    `json:"steps_before_shrinking"`
	StepsAfter   int    `json:"steps_after_shrinking"`
}

type WorkerOut struct {
	Prop       string            `json:"prop"`
	Tier       string            `json:"tier"`
	Seed       uint64            `json:"seed"`
	Worker     int               `json:"worker"`
	Runs       int               `json:"runs"`
	Unbuilt    int               `json:"unconstructed"`
	Hashes     []uint64          `json:"hashes"`     // distinct non-trivial (schedule × outcome) signatures
	SchedHash  []uint64          `json:"sched_hash"` // distinct schedule signatures
	StateHash  []uint64          `json:"state_hash"` // distinct outcome signatures
	Fired      map[string]int    `json:"fired"`
	Probes     map[string]int    `json:"probes"`
	SimS       float64           `json:"sim_s"`
	Steps      int               `json:"steps"`
	NoOps      int               `json:"noops"`
	Tasks      int               `json:"tasks"`
	Outcomes   map[string]int    `json:"outcomes"`
	RunsFlow   int               `json:"runs_with_full_flow"`
	Known      map[string]int    `json:"known"`
	KnownWhat  map[string]string `json:"known_what"`
	Violation  *WorkerViolation  `json:"violation,omitempty"`
	Samples    []*Plan           `json:"samples"`
	HarnessErr string            `json:"harness_err,omitempty"`
	WallS      float64           `json:"wall_s"`
	Exhaustive bool              `json:"exhaustive,omitempty"`
	Enumerated int               `json:"enumerated,omitempty"`
	Pairs      int               `json:"pairs,omitempty"`
}

func h64(s string) uint64 {
	h := fnv.New64a()
	h.Write([]byte(s))
	return h.Sum64()
}

type collector struct {
	out    *WorkerOut
	hashes map[uint64]bool
	sched  map[uint64]bool
	state  map[uint64]bool
	known  map[string]KnownFinding
}

func newCollector(prop string) *collector {
	return &collector{out: &WorkerOut{Prop: prop, Tier: *fTier, Seed: *fSeed, Worker: *fWorker, Fired: map[string]int{}, Probes: map[string]int{},
		Outcomes: map[string]int{}, Known: map[string]int{}, KnownWhat: map[string]string{}}, hashes: map[uint64]bool{}, sched: map[uint64]bool{}, state: map[uint64]bool{}, known: loadKnown(*fKnown)}
}

func (c *collector) add(res *Result) {
	o := c.out
	o.Runs++
	if res.World == nil || !res.World.constructed {
		o.Unbuilt++
	}
	for k, v := range res.Fired {
		o.Fired[k] += v
	}
	for k, v := range res.Probes {
		o.Probes[k] += v
	}
	if strings.HasSuffix(res.Plan.Family, "+soak") {
		o.Probes["soak_run"]++
		o.Probes["soak_run_requests"] += len(res.Tasks)
	}
	o.SimS += float64(res.SimNs) / 1e9
	o.Steps += res.Steps
	o.NoOps += res.NoOps
	o.Tasks += len(res.Tasks)
	flow := false
	for _, t := range res.Tasks {
		if t.Reply == nil {
			continue
		}
		code := fmt.Sprint(t.Reply.Status)
		if t.Reply.Msg != nil {
			code = t.Reply.Msg.StatusCode[strings.LastIndex(t.Reply.Msg.StatusCode, ":")+1:]
		}
		if t.Panic != "" {
			code = "panic"
		}
		if t.Abandoned {
			code = "abandoned"
		}
		o.Outcomes[t.Msg.Kind+":"+code]++
		if t.Msg.Kind == "callback" && t.Reply.IsSuccess() {
			flow = true
		}
	}
	if flow {
		o.RunsFlow++
	}
	nfault := 0
	for _, v := range res.Fired {
		nfault += v
	}
	interleaved := false
	if res.World != nil {
		last := -1
		switches := 0
		for _, e := range res.World.hist.Events {
			if e.Kind == "resume" {
				if last >= 0 && e.Task != last {
					switches++
				}
				last = e.Task
			}
		}
		interleaved = switches >= 2
	}
	sh, oh := h64(res.SchedSig), h64(res.OutcomeSig)
	c.sched[sh] = true
	c.state[oh] = true
	if nfault > 0 || interleaved {
		c.hashes[h64(res.SchedSig+"|"+res.OutcomeSig)] = true
	}
	if len(o.Samples) < 2 && len(res.Plan.Steps) > 0 {
		o.Samples = append(o.Samples, res.Plan)
	}
}

func (c *collector) finish(start time.Time) {
	o := c.out
	for h := range c.hashes {
		o.Hashes = append(o.Hashes, h)
	}
	for h := range c.sched {
		o.SchedHash = append(o.SchedHash, h)
	}
	for h := range c.state {
		o.StateHash = append(o.StateHash, h)
	}
	sort.Slice(o.Hashes, func(i, j int) bool { return o.Hashes[i] < o.Hashes[j] })
	sort.Slice(o.SchedHash, func(i, j int) bool { return o.SchedHash[i] < o.SchedHash[j] })
	sort.Slice(o.StateHash, func(i, j int) bool { return o.StateHash[i] < o.StateHash[j] })
	o.WallS = time.Since(start).Seconds()
	if *fOut != "" {
		b, _ := json.Marshal(o)
		if err := os.WriteFile(*fOut, b, 0o644); err != nil {
			fmt.Fprintln(os.Stderr, "cannot write worker output:", err)
			os.Exit(2)
		}
	}
}

// unknownViolation returns the first violation that is not a listed known finding; known ones are counted.
func (c *collector) triage(res *Result, count bool) *ViolationRec {
	var first *ViolationRec
	for i := range res.Violations {
		v := &res.Violations[i]
		if k, ok := c.known[v.Key]; ok {
			if count {
				c.out.Known[v.Key]++
				c.out.KnownWhat[v.Key] = k.What
			}
			continue
		}
		if first == nil {
			first = v
		}
	}
	return first
}

// TestWorker explores seeded plans for one property until the run or time budget is used up.
func TestWorker(t *testing.T) {
	if *fProp == "" || *fReplay != "" {
		t.Skip("no -prop")
	}
	start := time.Now()
	c := newCollector(*fProp)
	defer c.finish(start)
	if enumerate(t, c) {
		return
	}
	flag.Set("rapid.nofailfile", "true")
	shrink := "30s"
	if *fTier == "thorough" {
		shrink = "3m"
	}
	flag.Set("rapid.shrinktime", shrink)
	batchSize := 100
	for batch := 0; c.out.Runs < *fMaxRuns && time.Since(start) < *fBudget && c.out.Violation == nil && c.out.HarnessErr == ""; batch++ {
		seed := splitmix(splitmix(*fSeed)^uint64(*fWorker)<<32^uint64(batch)) | 1
		flag.Set("rapid.seed", fmt.Sprint(seed))
		n := batchSize
		if rem := *fMaxRuns - c.out.Runs; rem < n {
			n = rem
		}
		flag.Set("rapid.checks", fmt.Sprint(n))
		var (
			targetKey string
			lastFail  *Plan
			prefix    *PrefixReplay
			lastV     ViolationRec
			firstLen  int
			caseNo    int
		)
		ftb := &fakeTB{}
		rapid.Check(ftb, func(rt *rapid.T) {
			plan := drawPlan(rt, *fProp, *fFamily)
			plan.Seed, plan.Worker, plan.Case = *fSeed, *fWorker, c.out.Runs
			if *fMode == "race" {
				plan.Mode = "race"
			}
			shrinking := targetKey != ""
			if !shrinking && time.Since(start) > *fBudget {
				return // budget used up: let the batch run out quickly
			}
			if *fBeginLog != "" {
				plan.Save(*fBeginLog)
			}
			res := Run(t, plan)
			if res.HarnessErr != "" {
				c.out.HarnessErr = res.HarnessErr
				return
			}
			caseNo++
			if !shrinking {
				c.add(res)
			}
			v := c.triage(res, !shrinking)
			if shrinking {
				v = nil
				for i := range res.Violations {
					if res.Violations[i].Key == targetKey {
						v = &res.Violations[i]
					}
				}
			}
			if v != nil {
				if targetKey == "" {
					targetKey = v.Key
					firstLen = len(plan.Steps)
					prefix = &PrefixReplay{RapidSeed: seed, Checks: n, Case: caseNo, Key: v.Key, Rule: v.Rule, Prop: *fProp, Family: *fFamily, Mode: *fMode, Seed: *fSeed, Worker: *fWorker, FirstPlan: plan}
				}
				lastFail, lastV = plan, *v
				rt.Fatalf("%s", v.Key)
			}
		})
		if c.out.HarnessErr != "" {
			return
		}
		if lastFail != nil {
			min, mv := ddmin(t, lastFail, lastV)
			c.report(t, min, mv, firstLen)
			if prefix != nil && c.out.Violation != nil {
				pp := strings.TrimSuffix(c.out.Violation.Replay, ".json") + ".prefix.json"
				b, _ := json.MarshalIndent(prefix, "", " ")
				if os.WriteFile(pp, b, 0o644) == nil {
					c.out.Violation.PrefixReplay = pp
				}
			}
			return
		}
	}
}

func (c *collector) report(t *testing.T, plan *Plan, v ViolationRec, firstLen int) {
	plan.Violation = &v
	dir := *fReplayDir
	if dir == "" {
		dir = "."
	}
	os.MkdirAll(dir, 0o755)
	name := fmt.Sprintf("%s-%d-w%d-%s.json", plan.Property, *fSeed, *fWorker, strings.TrimPrefix(v.Digest, "sha256:")[:12])
	path := filepath.Join(dir, name)
	if err := plan.Save(path); err != nil {
		c.out.HarnessErr = "cannot write replay file: " + err.Error()
		return
	}
	c.out.Violation = &WorkerViolation{ViolationRec: v, Replay: path, StepsBefore: firstLen, StepsAfter: len(plan.Steps)}
}

// ddmin removes steps (and, where possible, whole world entities) while the same finding key persists.
func ddmin(t *testing.T, plan *Plan, v ViolationRec) (*Plan, ViolationRec) {
	deadline := time.Now().Add(60 * time.Second)
	still := func(p *Plan) (ViolationRec, bool) {
		res := Run(t, p)
		if res.HarnessErr != "" {
			return ViolationRec{}, false
		}
		for _, x := range res.Violations {
			if x.Key == v.Key {
				return x, true
			}
		}
		return ViolationRec{}, false
	}
	cur := plan.Clone()
	if x, ok := still(cur); ok {
		v = x
	} else {
		return plan, v
	}
	if cur.Recovery {
		q := cur.Clone()
		q.Recovery = false
		if x, ok := still(q); ok {
			cur, v = q, x
		}
	}
	for chunk := len(cur.Steps) / 2; chunk >= 1; chunk /= 2 {
		for i := 0; i+chunk <= len(cur.Steps) && time.Now().Before(deadline); {
			q := cur.Clone()
			q.Steps = append(q.Steps[:i:i], q.Steps[i+chunk:]...)
			if x, ok := still(q); ok {
				cur, v = q, x
			} else {
				i += chunk
			}
		}
	}
	// drop presessions, trailing users and SPs
	for len(cur.World.Presessions) > 0 && time.Now().Before(deadline) {
		q := cur.Clone()
		q.World.Presessions = q.World.Presessions[:len(q.World.Presessions)-1]
		if x, ok := still(q); ok {
			cur, v = q, x
		} else {
			break
		}
	}
	for len(cur.World.Users) > 1 && time.Now().Before(deadline) {
		q := cur.Clone()
		q.World.Users = q.World.Users[:len(q.World.Users)-1]
		if x, ok := still(q); ok {
			cur, v = q, x
		} else {
			break
		}
	}
	for len(cur.World.SPs) > 1 && time.Now().Before(deadline) {
		q := cur.Clone()
		q.World.SPs = q.World.SPs[:len(q.World.SPs)-1]
		if x, ok := still(q); ok {
			cur, v = q, x
		} else {
			break
		}
	}
	return cur, v
}

// TestReplay executes a replay file in a fresh process and reports whether the recorded violation reproduces.
func TestReplay(t *testing.T) {
	if *fReplay == "" {
		t.Skip("no -replay")
	}
	plan, err := LoadPlan(*fReplay)
	if err != nil {
		fmt.Println("REPLAY-ERROR", err)
		os.Exit(2)
	}
	res := Run(t, plan)
	if res.HarnessErr != "" {
		fmt.Println("REPLAY-ERROR", res.HarnessErr)
		os.Exit(2)
	}
	if *fTrace {
		for _, e := range res.World.hist.Events {
			fmt.Printf("%4d t=%s task=%d %s %s\n", e.Seq, time.Unix(0, e.T).UTC().Format(time.RFC3339Nano), e.Task, e.Kind, abbreviate(e.Detail, 600))
		}
	}
	fmt.Printf("REPLAY-DIGEST %s\n", res.Digest)
	for _, v := range res.Violations {
		fmt.Printf("REPLAY-VIOLATION key=%s rule=%q\n  expected: %s\n  observed: %s\n", v.Key, v.Rule, v.Expected, v.Observed)
	}
	if plan.Violation != nil {
		ok := false
		for _, v := range res.Violations {
			if v.Key == plan.Violation.Key && v.Rule == plan.Violation.Rule {
				ok = true
				if plan.Mode != "race" && v.Digest != plan.Violation.Digest {
					fmt.Printf("REPLAY-MISMATCH digest recorded=%s replayed=%s\n", plan.Violation.Digest, v.Digest)
					os.Exit(2)
				}
			}
		}
		if ok {
			fmt.Printf("REPLAY-REPRODUCED property=%s key=%s\n", plan.Property, plan.Violation.Key)
			if *fOut != "" {
				os.WriteFile(*fOut, []byte("reproduced\n"), 0o644)
			}
			return
		}
		fmt.Printf("REPLAY-NOT-REPRODUCED property=%s key=%s\n", plan.Property, plan.Violation.Key)
		if *fOut != "" {
			os.WriteFile(*fOut, []byte("not-reproduced\n"), 0o644)
		}
	}
}

// TestRealIDs: the ID stage with the library's real randomness source (crypto/rand via google/uuid), many goroutines.
// The seeded stages replace that source to make runs replayable, which would hide a change of the ID scheme's entropy;
// this stage would not. It writes {"ids":N,"duplicates":k,"illegal":j} to -out.
func TestRealIDs(t *testing.T) {
	if *fRealIDs <= 0 {
		t.Skip("no -realids")
	}
	n, dups, illegal, panics, sample, ps := realIDStage(*fRealIDs, 16)
	b, _ := json.Marshal(map[string]any{"ids": n, "duplicates": dups, "illegal": illegal, "panics": panics, "panic_sample": ps, "sample": sample})
	if *fOut != "" {
		os.WriteFile(*fOut, b, 0o644)
	}
	fmt.Printf("REALIDS %s\n", b)
}

// TestDigests prints the history digest of the first -n plans drawn for a property from one rapid seed. The determinism
// self-test runs it in several processes (different GOMAXPROCS) and compares the output byte for byte.
func TestDigests(t *testing.T) {
	if *fDigests <= 0 || *fProp == "" {
		t.Skip("no -digests")
	}
	flag.Set("rapid.nofailfile", "true")
	flag.Set("rapid.seed", fmt.Sprint(splitmix(*fSeed)|1))
	flag.Set("rapid.checks", fmt.Sprint(*fDigests))
	i := 0
	ftb := &fakeTB{}
	rapid.Check(ftb, func(rt *rapid.T) {
		plan := drawPlan(rt, *fProp, *fFamily)
		res := Run(t, plan)
		if res.HarnessErr != "" {
			fmt.Printf("DIGEST %d HARNESS-ERROR %s\n", i, abbreviate(res.HarnessErr, 300))
			i++
			return
		}
		keys := []string{}
		for _, v := range res.Violations {
			keys = append(keys, v.Key)
		}
		sort.Strings(keys)
		fmt.Printf("DIGEST %d %s steps=%d tasks=%d viol=%v\n", i, res.Digest, len(plan.Steps), len(res.Tasks), keys)
		i++
	})
}

// TestPrefixReplay re-executes a worker batch from its first case up to the recorded failing case in a fresh process.
func TestPrefixReplay(t *testing.T) {
	if *fPrefix == "" {
		t.Skip("no -prefixreplay")
	}
	b, err := os.ReadFile(*fPrefix)
	var pr PrefixReplay
	if err != nil || json.Unmarshal(b, &pr) != nil {
		fmt.Println("REPLAY-ERROR cannot read prefix replay file")
		os.Exit(2)
	}
	flag.Set("rapid.nofailfile", "true")
	flag.Set("rapid.seed", fmt.Sprint(pr.RapidSeed))
	flag.Set("rapid.checks", fmt.Sprint(pr.Checks))
	flag.Set("rapid.shrinktime", "1ns")
	caseNo := 0
	found := false
	ftb := &fakeTB{}
	rapid.Check(ftb, func(rt *rapid.T) {
		if found || caseNo >= pr.Case {
			return
		}
		plan := drawPlan(rt, pr.Prop, pr.Family)
		plan.Seed, plan.Worker = pr.Seed, pr.Worker
		if pr.Mode == "race" {
			plan.Mode = "race"
		}
		res := Run(t, plan)
		if res.HarnessErr != "" {
			fmt.Println("REPLAY-ERROR", res.HarnessErr)
			os.Exit(2)
		}
		caseNo++
		for _, v := range res.Violations {
			if v.Key == pr.Key && caseNo == pr.Case {
				found = true
				fmt.Printf("REPLAY-VIOLATION key=%s rule=%q (case %d of the batch)\n  expected: %s\n  observed: %s\n", v.Key, v.Rule, caseNo, v.Expected, v.Observed)
			}
		}
	})
	if found {
		fmt.Printf("REPLAY-REPRODUCED property=%s key=%s\n", pr.Prop, pr.Key)
		return
	}
	fmt.Printf("REPLAY-NOT-REPRODUCED property=%s key=%s\n", pr.Prop, pr.Key)
}
