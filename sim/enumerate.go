package sim

import "testing"

// enumerate runs the exhaustive part of a property's check, if it has one. It returns true when the worker is done
// (a violation or a harness error was recorded); false lets the seeded random exploration continue.
func enumerate(t *testing.T, c *collector) bool {
	switch *fProp {
	case "C09":
		return enumerateC09(t, c, *fWorkers)
	case "C10":
		return enumerateC10(t, c, *fWorkers)
	}
	return false
}
