package sim

import "testing"

// enumerate runs the exhaustive parts of a property's check (C10 single/pair faults, C09 single-edit
// sweep). It returns true when the property has no random exploration part after it.
func enumerate(t *testing.T, c *collector) bool { return false }
