package sim

// Plan generation. pgregory.net/rapid is the only choice source: a complete
// Plan value is drawn before the bubble is entered, so rapid's shrinker
// minimises worlds, steps, indices, durations and strings directly.

import (
	"fmt"
	"strings"
	"time"

	"pgregory.net/rapid"
)

type G struct{ t *rapid.T }

func (g G) intn(label string, n int) int {
	if n <= 1 {
		return 0
	}
	return rapid.IntRange(0, n-1).Draw(g.t, label)
}

func (g G) rng(label string, lo, hi int) int { return rapid.IntRange(lo, hi).Draw(g.t, label) }

func (g G) chance(label string, pct int) bool {
	if pct <= 0 {
		return false
	}
	if pct >= 100 {
		return true
	}
	return rapid.IntRange(0, 99).Draw(g.t, label) >= 100-pct
}

// pick2ms draws a short duration (in ns) for request deadlines: from a microsecond to a few seconds.
func (g G) pick2ms(label string) int64 {
	return []int64{1000, 1000000, 50000000, 1000000000, 5000000000}[g.intn(label, 5)]
}

func (g G) pick(label string, opts ...string) string {
	return opts[g.intn(label, len(opts))]
}

// weighted returns an index; index 0 is the "simplest" choice (rapid shrinks towards it).
func (g G) weighted(label string, weights ...int) int {
	total := 0
	for _, w := range weights {
		total += w
	}
	x := g.intn(label, total)
	for i, w := range weights {
		if x < w {
			return i
		}
		x -= w
	}
	return 0
}

var hardBits = []string{"&", "<", ">", `"`, "'", " ", "\t", "\n", "\r", "é", "ß", "日本", "😀", "&amp;", "]]>", "%26", "+", "=", "#", ";"}

// text draws a string carrying `marker`; hard adds XML/HTML/URL metacharacters, whitespace and non-ASCII.
func (g G) text(label, marker string, hard bool) string {
	s := marker
	n := g.intn(label+".n", 4)
	for i := 0; i < n; i++ {
		if hard && g.chance(label+".h", 60) {
			s += hardBits[g.intn(label+".hb", len(hardBits))]
		} else {
			s += string(rune('a' + g.intn(label+".c", 26)))
		}
	}
	if hard && g.chance(label+".lead", 15) {
		s = " " + s
	}
	if hard && g.chance(label+".trail", 15) {
		s += " "
	}
	return s
}

type worldOpts struct {
	bigUserPct                    int // users with one very large multi-valued attribute
	maxSPs, maxUsers, maxReplicas int
	hardPct                       int // probability (per world) that strings are drawn from the hard alphabet
	hardURLPct                    int // … that SP URLs / entity IDs carry query strings and metacharacters
	issuerVariety                 bool
	endpointVariety               bool
	signReqVariety                bool
	acsVariety                    bool
	acsSupportedVariety           bool // 1..3 ACS entries over POST/Redirect only, with every index / isDefault mix
	sloVariety                    bool
	metaVariety                   bool
	parkVariety                   bool
	timeFormatVariety             bool
	skewPct                       int
	customAttrs                   bool
	noCertPct                     int
	expiredSPCertPct              int
	nilUnknownPct                 int // storage flavour that answers (nil, nil) for an unknown entity
}

func (g G) drawIDP(o worldOpts) IDPCfg {
	c := IDPCfg{IssuerKind: "static", Issuer: "https://idp.example", SigAlg: AlgRSASHA256}
	if g.chance("idp.sha1", 30) {
		c.SigAlg = AlgRSASHA1
	}
	if o.issuerVariety {
		switch g.weighted("idp.issuerKind", 40, 20, 20, 10, 10) {
		case 0:
			c.Issuer = g.pick("idp.static", "https://idp.example", "https://idp.example/saml", "https://idp.example/saml/", "https://idp.example:8443/a/b", "https://idp.example/", "https://idp--staging.example/saml", "https://xn--idp-qla.example")
		case 1:
			c.IssuerKind, c.Issuer = "host", g.pick("idp.hostpath", "", "/saml", "saml", "/saml/v2/")
		case 2:
			c.IssuerKind, c.Issuer = "forwarded", g.pick("idp.fwdpath", "", "/saml", "idp")
		case 3:
			c.IssuerKind, c.Issuer, c.Headers = "header", g.pick("idp.hdrpath", "", "/saml"), []string{"X-Zitadel-Forwarded"}
			if g.chance("idp.hdr2", 50) {
				// two configured header names: the first one that yields a host wins (configured order)
				c.Headers = []string{"X-Zitadel-Forwarded", "X-Edge-Forwarded"}
			}
		case 4:
			c.Insecure = true
			c.Issuer = g.pick("idp.insecure", "http://idp.example", "http://localhost:8080/saml")
		}
		if c.IssuerKind != "static" && g.chance("idp.insecureDyn", 20) {
			c.Insecure = true
		}
	}
	if o.endpointVariety {
		drawEP := func(label, def string) EndpointCfg {
			switch g.weighted(label, 55, 13, 12, 10, 10) {
			case 4:
				return EndpointCfg{Set: true, Path: g.pick(label+".dir", "/dir/", "v2/") + def + "/"}
			case 1:
				return EndpointCfg{Set: true, Path: "/custom/" + def}
			case 2:
				return EndpointCfg{Set: true, Path: "x" + def}
			case 3:
				return EndpointCfg{Set: true, Path: "/ext/" + def, URL: "https://gateway.example/ext/" + def}
			}
			return EndpointCfg{}
		}
		c.SSO, c.SLO, c.Attr = drawEP("idp.ep.sso", "sso"), drawEP("idp.ep.slo", "slo"), drawEP("idp.ep.attr", "attr")
		c.Callback, c.Cert = drawEP("idp.ep.cb", "cb"), drawEP("idp.ep.cert", "crt")
		if g.chance("idp.ep.md", 25) {
			c.Metadata = EndpointCfg{Set: true, Path: g.pick("idp.ep.mdpath", "/md", "metadata.xml", "/saml/metadata")}
			if g.chance("idp.ep.mdurl", 40) {
				// the metadata document is published under an external URL (the entityID is then that URL for every request host)
				c.Metadata.URL = g.pick("idp.ep.mdurlv", "https://login.example/federation", "https://gateway.example") + "/" + strings.TrimPrefix(c.Metadata.Path, "/")
			}
		}
	}
	if o.signReqVariety {
		c.WantSigned = g.pick("idp.wantSigned", "", "false", "true", "1", "0", "true", "1", "True", "TRUE", "T", "t", " true ", "yes", "False", "01")
	}
	if o.metaVariety {
		if g.chance("idp.metaSig", 50) {
			c.MetaSigAlg = g.pick("idp.metaSigAlg", AlgRSASHA256, AlgRSASHA1)
		}
		if g.chance("idp.enc", 30) {
			c.EncAlg = "http://www.w3.org/2001/04/xmlenc#aes256-cbc"
		}
		hard := g.chance("idp.orgHard", o.hardPct)
		if g.chance("idp.org", 40) {
			c.Org = &OrgCfg{Name: g.text("idp.org.name", "Org", hard), DisplayName: g.text("idp.org.dn", "Display", hard), URL: "https://org.example/" + g.text("idp.org.url", "u", false)}
			switch g.weighted("idp.org.empty", 80, 10, 10) {
			case 1:
				c.Org.URL = ""
			case 2:
				c.Org.DisplayName = ""
			}
		}
		if g.chance("idp.contact", 40) {
			c.Contact = &ContactCfg{Type: g.pick("idp.ct", "technical", "support", "administrative"), Company: g.text("idp.c.co", "Co", hard), GivenName: g.text("idp.c.gn", "Gn", hard),
				SurName: g.text("idp.c.sn", "Sn", hard), Email: "mailto:ops@example.org", Phone: "+41 00 000 00 00"}
		}
		if g.chance("idp.validUntil", 30) {
			c.ValidUntilS = int64(g.rng("idp.validUntilS", 1, 86400*30))
		}
		if g.chance("idp.cache", 30) {
			c.CacheDuration = "PT1H"
		}
		if g.chance("idp.errurl", 20) {
			c.ErrorURL = g.pick("idp.errurlv", "https://idp.example/error", "https://idp.example/error", "/error", "error.html")
		}
	}
	if o.timeFormatVariety && g.chance("idp.tf", 35) {
		c.TimeFormat = g.pick("idp.tfv", "2006-01-02T15:04:05Z", "2006-01-02T15:04:05.000Z", "2006-01-02T15:04:05.999999999Z")
	}
	return c
}

func (g G) drawSP(i int, o worldOpts, hardURL bool) SPCfg {
	mk := spMarker(i)
	base := fmt.Sprintf("https://sp%d.example/%s", i, mk)
	c := SPCfg{Entity: base + "/metadata", AppID: "app-" + mk, Key: KeySP0 + mod(i, 4), HasCert: true, CertUse: "signing"}
	q := ""
	if hardURL {
		q = g.pick(fmt.Sprintf("sp%d.q", i), "?a=1&b=2", "?x=<y>", `?q="v"`, "?r=a%20b+c", "?ü=é", "?t='s'", "?", "?a=1&b=2#frag")
		if g.chance(fmt.Sprintf("sp%d.entq", i), 50) {
			c.Entity += q
		}
	}
	if g.chance(fmt.Sprintf("sp%d.shortcert", i), o.expiredSPCertPct) {
		c.Key = KeyShort // the registered certificate is valid during 2001 only: expired (or not yet valid) at almost every simulated instant
	}
	if g.chance(fmt.Sprintf("sp%d.nocert", i), o.noCertPct) {
		c.HasCert = false
	}
	if g.chance(fmt.Sprintf("sp%d.use", i), 30) {
		c.CertUse = ""
	}
	c.CertWrap = g.chance(fmt.Sprintf("sp%d.wrap", i), 30)
	c.DecoyNS = g.chance(fmt.Sprintf("sp%d.decoy", i), 10)
	if g.chance(fmt.Sprintf("sp%d.vu", i), 12) {
		c.ValidUntil = g.pick(fmt.Sprintf("sp%d.vuv", i), "1999-01-01T00:00:00Z", "2001-06-01T00:00:00Z", "2099-01-01T00:00:00Z", "2010-01-01T00:00:00Z")
	}
	if g.chance(fmt.Sprintf("sp%d.enc", i), 30) {
		// a second KeyDescriptor for encryption (another key pair), before or after the signing one
		c.EncKey, c.EncFirst = KeyEnc, g.chance(fmt.Sprintf("sp%d.encfirst", i), 50)
		if g.chance(fmt.Sprintf("sp%d.encsame", i), 40) {
			c.EncKey = c.Key // one key pair published twice: once for signing, once for encryption
		}
	}
	c.MDPrefix = g.pick(fmt.Sprintf("sp%d.mdp", i), "", "default", "exotic")
	if o.signReqVariety {
		c.AuthnRequestsSigned = g.pick(fmt.Sprintf("sp%d.ars", i), "", "false", "true", "1", "0", "true", "1", "True", "TRUE", "t", " true ", "yes", " 1")
	}
	if o.acsVariety {
		n := g.rng(fmt.Sprintf("sp%d.nacs", i), 1, 4)
		for k := 0; k < n; k++ {
			b := g.pick(fmt.Sprintf("sp%d.acs%d.b", i, k), BindPost, BindRedirect, BindPost, BindRedirect, BindArtifact, BindPAOS, "urn:example:binding:unknown",
				BindPost, BindRedirect, BindSimpleSign, BindSOAP, "urn:oasis:names:tc:SAML:2.0:bindings:URI", "urn:oasis:names:tc:SAML:2.0:bindings:http-post", BindPost+" ", "urn:oasis:names:tc:SAML:1.0:profiles:browser-post", "", "urn:example:binding?v=1&x=<y>")
			a := ACSCfg{Binding: b, Index: g.pick(fmt.Sprintf("sp%d.acs%d.i", i, k), "0", "1", "2", "7", "65535"), URL: fmt.Sprintf("%s/acs%d%s", base, k, q)}
			a.IsDefault = g.pick(fmt.Sprintf("sp%d.acs%d.d", i, k), "", "", "true", "false", "1", "0")
			c.ACS = append(c.ACS, a)
		}
	} else if o.acsSupportedVariety && g.chance(fmt.Sprintf("sp%d.acsv", i), 70) {
		n := g.rng(fmt.Sprintf("sp%d.nacs", i), 1, 3)
		for k := 0; k < n; k++ {
			a := ACSCfg{Binding: g.pick(fmt.Sprintf("sp%d.acs%d.b", i, k), BindPost, BindRedirect), Index: g.pick(fmt.Sprintf("sp%d.acs%d.i", i, k), "1", "2", "0", "7", "65535", "3"), URL: fmt.Sprintf("%s/acs%d%s", base, k, q)}
			a.IsDefault = g.pick(fmt.Sprintf("sp%d.acs%d.d", i, k), "", "", "", "true", "false", "1", "0")
			c.ACS = append(c.ACS, a)
		}
	} else {
		c.ACS = []ACSCfg{{Binding: BindPost, Index: "0", IsDefault: "true", URL: base + "/acs" + q}}
		if g.chance(fmt.Sprintf("sp%d.redir", i), 50) {
			c.ACS = append(c.ACS, ACSCfg{Binding: BindRedirect, Index: "1", URL: base + "/acs-redirect" + q})
		}
	}
	if o.sloVariety {
		n := g.intn(fmt.Sprintf("sp%d.nslo", i), 4)
		for k := 0; k < n; k++ {
			c.SLO = append(c.SLO, SLOCfg{Binding: g.pick(fmt.Sprintf("sp%d.slo%d.b", i, k), BindPost, BindRedirect, BindPost, BindRedirect, BindSOAP), URL: fmt.Sprintf("%s/slo%d%s", base, k, q)})
		}
		if n >= 2 && g.chance(fmt.Sprintf("sp%d.slo0empty", i), 12) {
			c.SLO[0].URL = "" // the first registered entry carries no location (Location=""): there is nowhere to post to
		}
	} else {
		c.SLO = []SLOCfg{{Binding: BindPost, URL: base + "/slo" + q}}
	}
	// the optional ResponseLocation attribute: equal to Location, or another URL of the SP; the properties name Location only
	for k := range c.SLO {
		switch g.weighted(fmt.Sprintf("sp%d.slo%d.rl", i, k), 76, 8, 16) {
		case 1:
			c.SLO[k].RespLoc = c.SLO[k].URL
		case 2:
			c.SLO[k].RespLoc = fmt.Sprintf("https://return.sp%d.example/%s/slo-return%d%s", i, mk, k, q)
		}
	}
	for k := range c.ACS {
		if g.chance(fmt.Sprintf("sp%d.acs%d.rl", i, k), 8) {
			c.ACS[k].RespLoc = fmt.Sprintf("https://return.sp%d.example/%s/acs-return%d%s", i, mk, k, q)
		}
	}
	if g.chance(fmt.Sprintf("sp%d.skew", i), o.skewPct) {
		c.SkewMs = int64(g.rng(fmt.Sprintf("sp%d.skewMs", i), -600000, 600000))
	}
	return c
}

func (g G) drawUser(i int, o worldOpts, hard bool) UserCfg {
	mk := userMarker(i)
	u := UserCfg{ID: "uid-" + mk, LoginName: "login-" + mk + "@example.org"}
	lab := fmt.Sprintf("u%d.", i)
	if g.chance(lab+"bare", 6) {
		return u // an account without any profile data: the storage sets no attribute at all
	}
	if g.chance(lab+"email", 85) {
		u.Email = g.text(lab+"emailv", mk+"@mail.example", hard)
	}
	if g.chance(lab+"full", 85) {
		u.FullName = g.text(lab+"fullv", "Full "+mk, hard)
	}
	if g.chance(lab+"given", 85) {
		u.GivenName = g.text(lab+"givenv", "Given"+mk, hard)
	}
	if g.chance(lab+"sur", 85) {
		u.Surname = g.text(lab+"surv", "Sur"+mk, hard)
	}
	if g.chance(lab+"uname", 90) {
		u.Username = g.text(lab+"unamev", "name-"+mk, hard)
	}
	if g.chance(lab+"uid", 85) {
		u.UID = g.text(lab+"uidv", "id-"+mk, hard)
	}
	if o.customAttrs && g.chance(lab+"big", o.bigUserPct) {
		u.BigN = g.rng(lab+"bign", 150, 450)
	}
	if o.customAttrs {
		n := g.intn(lab+"ncustom", 4)
		for k := 0; k < n; k++ {
			if g.chance(fmt.Sprintf("%sc%d.std", lab, k), 8) {
				// a custom attribute that carries the name of one of the standard attributes (its own name format or the same)
				u.Custom = append(u.Custom, CustomAttrCfg{Name: g.pick(fmt.Sprintf("%sc%d.stdn", lab, k), "Email", "SurName", "FirstName", "FullName", "UserName", "UserID"),
					Format: g.pick(fmt.Sprintf("%sc%d.stdf", lab, k), "", nfBasic, "urn:oasis:names:tc:SAML:2.0:attrname-format:uri"), Values: []string{fmt.Sprintf("custom%d-%s", k, mk)}})
				continue
			}
			ca := CustomAttrCfg{Name: g.text(fmt.Sprintf("%sc%d.name", lab, k), fmt.Sprintf("attr%d-%s", k, mk), hard),
				Friendly: g.pick(fmt.Sprintf("%sc%d.fr", lab, k), "", "Friendly "+mk),
				Format:   g.pick(fmt.Sprintf("%sc%d.fmt", lab, k), "", "urn:oasis:names:tc:SAML:2.0:attrname-format:basic", "urn:oasis:names:tc:SAML:2.0:attrname-format:uri")}
			if k > 0 && len(u.Custom) > 0 && g.chance(fmt.Sprintf("%sc%d.dup", lab, k), 8) {
				// the storage reports one attribute name in two calls (the later call supersedes the earlier one)
				ca.Name = u.Custom[len(u.Custom)-1].Name
			}
			nv := g.intn(fmt.Sprintf("%sc%d.nv", lab, k), 4)
			for v := 0; v < nv; v++ {
				if g.chance(fmt.Sprintf("%sc%d.v%d.empty", lab, k, v), 6) {
					ca.Values = append(ca.Values, "") // an empty-but-present value
					continue
				}
				ca.Values = append(ca.Values, g.text(fmt.Sprintf("%sc%d.v%d", lab, k, v), fmt.Sprintf("val%d-%s", v, mk), hard))
			}
			u.Custom = append(u.Custom, ca)
		}
	}
	return u
}

func (g G) drawWorld(o worldOpts) WorldCfg {
	if o.maxSPs == 0 {
		o.maxSPs = 2
	}
	if o.maxUsers == 0 {
		o.maxUsers = 2
	}
	if o.maxReplicas == 0 {
		o.maxReplicas = 1
	}
	w := WorldCfg{}
	w.Replicas = g.rng("replicas", 1, o.maxReplicas)
	w.IDP = g.drawIDP(o)
	hard := g.chance("hardStrings", o.hardPct)
	hardURL := g.chance("hardURLs", o.hardURLPct)
	nsp := g.rng("nsps", 1, o.maxSPs)
	for i := 0; i < nsp; i++ {
		w.SPs = append(w.SPs, g.drawSP(i, o, hardURL))
	}
	w.Rogue = SPCfg{Entity: "https://rogue.example/metadata", AppID: "app-rogue", Key: KeyRogue, HasCert: true, CertUse: "signing",
		ACS: []ACSCfg{{Binding: BindPost, Index: "0", URL: "https://rogue.example/acs"}}, SLO: []SLOCfg{{Binding: BindPost, URL: "https://rogue.example/slo"}}}
	nu := g.rng("nusers", 1, o.maxUsers)
	for i := 0; i < nu; i++ {
		w.Users = append(w.Users, g.drawUser(i, o, hard))
	}
	w.UUIDKey = uint64(g.rng("uuidKey", 0, 1<<30))
	w.EpochMs = int64(g.rng("epochMs", 0, 86400*365*20)) * 1000
	if o.parkVariety {
		w.ParkWrites = g.chance("parkWrites", 30)
		w.ParkBody = g.chance("parkBody", 30)
		w.SharedSP = g.chance("sharedSP", 50)
	}
	w.NilUnknown = g.chance("nilUnknown", o.nilUnknownPct)
	w.Neighbours = g.chance("neighbours", 30)
	w.CtxAware = g.chance("ctxAware", 35)
	w.TenantKeys = g.chance("tenantKeys", 35)
	w.TypedNil = g.chance("typedNil", 30)
	w.OwnSlices = g.chance("ownSlices", 40)
	return w
}

func (g G) drawStyle(label string) Style {
	s := Style{}
	if g.chance(label+".plain", 25) {
		return s
	}
	s.Prefix = g.intn(label+".prefix", 4)
	s.AttrOrder = g.intn(label+".attrOrder", 50)
	s.Indent = g.intn(label+".indent", 3)
	s.XMLDecl = g.chance(label+".decl", 40)
	s.Frac = g.intn(label+".frac", 10)
	s.Enc = g.intn(label+".enc", 3)
	s.Deflate = g.rng(label+".deflate", 1, 9)
	s.SigPrefix = g.intn(label+".sigPrefix", 3)
	s.KeyInfo = g.chance(label+".keyInfo", 60)
	s.WrapCert = g.chance(label+".wrapCert", 30)
	s.WrapB64 = g.chance(label+".wrapB64", 30)
	s.SigIndent = g.chance(label+".sigIndent", 30)
	s.Optional = g.intn(label+".optional", 1<<11)
	s.SelfClose = g.chance(label+".selfClose", 50)
	s.EncodingP = g.intn(label+".encodingP", 2)
	s.Chunked = g.chance(label+".chunked", 15)
	if g.chance(label+".textForm", 35) {
		s.TextForm = g.rng(label+".textFormK", 1, 4)
	}
	if g.chance(label+".b64Lines", 20) {
		s.B64Lines = g.rng(label+".b64LinesK", 1, 4)
	}
	s.BodyAndURL = g.chance(label+".bodyAndURL", 15)
	if g.chance(label+".trailer", 25) {
		s.Trailer = g.rng(label+".trailerK", 1, 3)
	}
	if g.chance(label+".ct", 30) {
		s.CT = g.rng(label+".ctK", 1, 3)
	}
	if g.chance(label+".hoistNS", 30) {
		s.HoistNS = g.rng(label+".hoistNSK", 1, 2)
	}
	return s
}

// advertisedBinding: a binding the IdP's metadata advertises for the SSO/SLO endpoint.
func (g G) drawBinding(label string) string { return g.pick(label, "redirect", "post") }

// drawSSO draws a conformant AuthnRequest for SP sp: unsigned where signing is not required, otherwise
// (or optionally) correctly signed.
func (g G) drawSSO(label string, w *WorldCfg, sp int) *MsgSpec {
	m := &MsgSpec{Kind: "sso", SP: sp, Binding: g.drawBinding(label + ".binding"), Style: g.drawStyle(label + ".style")}
	c := &w.SPs[mod(sp, len(w.SPs))]
	need := isXSTrue(c.AuthnRequestsSigned) || isXSTrue(w.IDP.WantSigned)
	if c.HasCert && (need || g.chance(label+".signAnyway", 30)) {
		m.Sign = g.pick(label+".alg", "rsa-sha256", "rsa-sha1")
	}
	m.ID = "_" + sessionMarker(g.intn(label+".idn", 1000)) + g.text(label+".id", "", false)
	if g.chance(label+".relay", 70) {
		m.HasRelay = true
		m.RelayState = g.text(label+".relayv", "relay"+strings.TrimPrefix(strings.SplitN(m.ID, "kx", 2)[0], "_")+"kx", false)
	}
	if m.HasRelay {
		switch g.weighted(label+".relaylen", 86, 6, 4, 4) {
		case 1:
			m.RelayState = padTo(m.RelayState, 80) // exactly the 80 bytes the bindings allow
		case 2:
			m.RelayState = padTo(m.RelayState, 79)
		case 3:
			m.RelayState = padTo(m.RelayState, g.pick2(label+".relaylong", 81, 200, 9000, 12000)) // longer than the bindings allow: not conformant, delivered all the same by many SPs
		}
	}
	m.DestMode = g.pick(label+".dest", "advertised", "advertised", "absent")
	if g.chance(label+".protobind", 35) && len(c.ACS) > 0 {
		a := c.ACS[g.intn(label+".pbacs", len(c.ACS))]
		m.ProtoBind = a.Binding
		switch g.intn(label+".acsref", 3) {
		case 1:
			m.ACSURL = a.URL
		case 2:
			m.ProtoBind, m.ACSIndex = "", a.Index
		}
	}
	if g.chance(label+".window", 40) {
		m.HasNotBefore, m.NotBeforeNs = true, -int64(g.rng(label+".nb", 0, 300))*int64(time.Second)
		m.HasNotOnOrAfter, m.NotOnOrAfterNs = true, int64(g.rng(label+".nooa", 1, 600))*int64(time.Second)
	}
	return m
}

func (g G) drawFault(label string, pct int) string {
	if !g.chance(label+".on", pct) {
		return ""
	}
	return g.pick(label+".kind", "err", "err", "err", "nil_record", "key_without_cert", "cert_without_key", "empty_cert", "partial_err", "err_canceled", "err_notfound", "err_deadline", "err_eof", "err_text")
}

// drawFaultSigning: like drawFault, plus key records that look complete and only fail when the signature is made ("signing
// failure" of C01; not among the kinds C10 names, so not used there).
func (g G) drawFaultSigning(label string, pct int) string {
	if !g.chance(label+".on", pct) {
		return ""
	}
	return g.pick(label+".kind", "err", "err", "nil_record", "key_without_cert", "cert_without_key", "empty_cert", "partial_err", "cert_mismatch", "cert_truncated", "cert_mismatch", "err_canceled")
}

// boundaryAdvance draws a clock advance with point masses on interesting instants.
func (g G) drawAdvance(label string, anchors []int64) int64 {
	switch g.weighted(label+".kind", 30, 25, 20, 15, 10) {
	case 0:
		return int64(g.rng(label+".ms", 1, 5000)) * int64(time.Millisecond)
	case 1:
		if len(anchors) > 0 {
			a := anchors[g.intn(label+".anchor", len(anchors))]
			d := []int64{0, 1, -1, 1000, -1000, int64(time.Second), -int64(time.Second)}[g.intn(label+".delta", 7)]
			if a+d > 0 {
				return a + d
			}
		}
		return int64(g.rng(label+".s2", 1, 600)) * int64(time.Second)
	case 2:
		return int64(g.rng(label+".s", 1, 900)) * int64(time.Second)
	case 3:
		return int64(g.rng(label+".h", 1, 72)) * int64(time.Hour)
	}
	return int64(g.rng(label+".d", 1, 3650)) * 24 * int64(time.Hour)
}

// ---------------------------------------------------------------------------
// family C01: SSO acceptance, login completion and callbacks for several sessions, interleaved, under faults

func (g G) planC01() *Plan {
	o := worldOpts{maxSPs: 3, maxUsers: 3, maxReplicas: 2, hardPct: 10, parkVariety: true, customAttrs: true}
	p := &Plan{Format: 1, Property: "C01", Mode: "serial", Family: "callback-histories"}
	p.World = g.drawWorld(o)
	if g.chance("algbad", 6) {
		p.World.IDP.SigAlg = g.pick("algbadv", "", "http://www.w3.org/2000/09/xmldsig#dsa-sha1", "urn:example:unusable", "rsa-sha256", "http://www.w3.org/2001/04/xmldsig-more#ecdsa-sha256", AlgRSASHA512)
	}
	// some sessions exist before the run (records the SSO endpoint did not persist itself)
	npre := g.intn("npre", 3)
	for i := 0; i < npre; i++ {
		sp := g.intn(fmt.Sprintf("pre%d.sp", i), len(p.World.SPs))
		acs := p.World.SPs[sp].ACS[0]
		ps := Preseed{SP: sp, AuthRequestID: "_pre" + sessionMarker(900+i), RelayState: "relay" + sessionMarker(900+i),
			ACS: acs.URL, Binding: g.pick(fmt.Sprintf("pre%d.b", i), BindPost, BindRedirect), Done: g.chance(fmt.Sprintf("pre%d.done", i), 50), User: g.intn(fmt.Sprintf("pre%d.u", i), 3)}
		// stored requests of unusual shape: no consumer URL, a binding the IdP cannot serve, a duplicate AuthnRequest ID
		switch g.weighted(fmt.Sprintf("pre%d.shape", i), 70, 12, 10, 8, 6) {
		case 1:
			ps.ACS = ""
		case 2:
			ps.Binding = g.pick(fmt.Sprintf("pre%d.oddb", i), BindArtifact, "", "urn:example:binding:unknown")
		case 3:
			ps.AuthRequestID = "_pre" + sessionMarker(900)
		case 4:
			// a record written by the integrator (or a legacy row) without the SP's AuthnRequest ID, possibly without binding / consumer URL too
			ps.AuthRequestID = ""
			switch g.intn(fmt.Sprintf("pre%d.noid", i), 3) {
			case 1:
				ps.Binding = ""
			case 2:
				ps.ACS = ""
			}
		}
		p.World.Presessions = append(p.World.Presessions, ps)
	}
	p.World.LiveRecords = g.chance("liveRecords", 25)
	// several tenants on one instance: the issuer follows the request host, the storage keeps stored requests per tenant
	// (per-tenant ids collide across tenants), the callback endpoint may be published under an external URL
	tenants := g.chance("tenants", 12)
	if tenants {
		p.World.IDP.IssuerKind, p.World.IDP.Issuer = "host", g.pick("tenants.path", "", "", "/saml")
		p.World.TenantSessions = true
		switch g.intn("tenants.cb", 3) {
		case 1:
			p.World.IDP.Callback = EndpointCfg{Set: true, Path: "/ext/cb", URL: "https://gateway.example/ext/cb"}
		case 2:
			p.World.IDP.Callback = EndpointCfg{Set: true, Path: "/custom/cb"}
		}
		p.Family += "+tenants"
		defer func() {
			for i := range p.Steps {
				if m := p.Steps[i].Msg; m != nil {
					m.Host = g.pick(fmt.Sprintf("tenants.h%d", i), hostMarker(0)+".idp.example", hostMarker(1)+".idp.example", "gateway.example", "gateway.example")
				}
			}
		}()
	}
	n := g.rng("nsteps", 3, 40)
	sessRange := 8
	if g.chance("soak", soakPct) {
		n = g.rng("nsoak", 120, 400)
		sessRange = 64
		p.Family += "+soak"
	}
	faultPct := g.pick("faultPct", "0", "0", "10", "25")
	fp := 0
	fmt.Sscanf(faultPct, "%d", &fp)
	for i := 0; i < n; i++ {
		lab := fmt.Sprintf("s%d", i)
		switch g.weighted(lab+".k", 14, 18, 28, 10, 5, 1, 2, 3, 2, 16) {
		case 0:
			p.Steps = append(p.Steps, Step{K: "send", Msg: g.drawSSO(lab+".sso", &p.World, g.intn(lab+".sp", len(p.World.SPs)))})
		case 1:
			m := &MsgSpec{Kind: "callback", Session: g.intn(lab+".sess", sessRange), Replica: g.intn(lab+".rep", 2),
				IDMode:  g.pick(lab+".idmode", "session", "session", "session", "session", "unknown", "empty", "huge", "literal", "session-variant", "session-variant"),
				IDPlace: g.pick(lab+".place", "query", "query", "form", "both", "form-other-query")}
			if m.IDMode == "session-variant" {
				m.IDLit = g.pick(lab+".idvar", "pct-char", "pct-dash", "upper", "trailing-space", "leading-space", "trailing-nul", "plus-for-dash", "double-pct", "trailing-slash", "prefix-only")
			}
			if m.IDMode == "literal" {
				m.IDLit = g.pick(lab+".idlit", "ar0-", "ar0-000000000000", " ", "%00", "ar0-000000000000&id=x", "../ar0", "ar1-x' OR '1'='1")
			}
			// a fault aimed at one particular storage call of this callback (4 = the signing key read)
			if fp > 0 && g.chance(lab+".fa", fp) {
				m.FaultAt = []int{4, 4, 3, 2, 1}[g.intn(lab+".fan", 5)]
				m.FaultKind = g.drawFaultSigning(lab+".fak", 100)
			}
			p.Steps = append(p.Steps, Step{K: "send", Msg: m})
			// live records: the login completes (possibly for another user than the preselected one) while the callback is between
			// two of its storage calls
			if p.World.LiveRecords && g.chance(lab+".liverace", 40) {
				for k := g.rng(lab+".liverace.k", 1, 3); k > 0; k-- {
					p.Steps = append(p.Steps, Step{K: "resume", Pick: 99})
				}
				p.Steps = append(p.Steps, Step{K: "mutate", Mut: g.pick(lab+".liverace.m", "complete", "complete", "uncomplete"), A: m.Session, B: g.intn(lab+".liverace.u", 3)})
				p.Steps = append(p.Steps, Step{K: "finish", Pick: 99})
				break
			}
			// biased placement: race the completion against the callback's storage read
			if g.chance(lab+".race", 50) {
				if g.chance(lab+".before", 50) {
					p.Steps = append(p.Steps, Step{K: "mutate", Mut: "complete", A: m.Session, B: g.intn(lab+".user", 3)})
					p.Steps = append(p.Steps, Step{K: "resume", Pick: 99, Fault: g.drawFaultSigning(lab+".f1", fp)})
				} else {
					p.Steps = append(p.Steps, Step{K: "resume", Pick: 99, Fault: g.drawFaultSigning(lab+".f1", fp)})
					p.Steps = append(p.Steps, Step{K: "mutate", Mut: "complete", A: m.Session, B: g.intn(lab+".user", 3)})
				}
			}
		case 2:
			p.Steps = append(p.Steps, Step{K: "resume", Pick: g.intn(lab+".pick", 8), Fault: g.drawFaultSigning(lab+".f", fp)})
		case 3:
			p.Steps = append(p.Steps, Step{K: "mutate", Mut: "complete", A: g.intn(lab+".sess", sessRange), B: g.intn(lab+".user", 3)})
		case 4:
			p.Steps = append(p.Steps, Step{K: "advance", Ns: g.drawAdvance(lab+".adv", nil)})
		case 5:
			p.Steps = append(p.Steps, Step{K: "restart", Replica: g.intn(lab+".rep", 2)})
		case 6:
			p.Steps = append(p.Steps, Step{K: "mutate", Mut: "deleteRequest", A: g.intn(lab+".sess", sessRange)})
		case 7:
			p.Steps = append(p.Steps, Step{K: "mutate", Mut: "rotateKey"})
		case 8:
			p.Steps = append(p.Steps, Step{K: "mutate", Mut: "uncomplete", A: g.intn(lab+".sess", sessRange)})
		case 9:
			p.Steps = append(p.Steps, Step{K: "finish", Pick: g.intn(lab+".pick", 8)})
		}
	}
	return p
}

func drawPlan(t *rapid.T, prop, family string) *Plan {
	g := G{t}
	var p *Plan
	switch prop {
	case "C01":
		p = g.planC01()
	case "C08":
		p = g.planC08()
	case "C09":
		p = g.planC09()
	case "C10":
		p = g.planC10()
	case "C05", "C06":
		p = g.planSSO(prop)
	case "C02":
		p = g.planC02()
	case "C07":
		p = g.planC07()
	case "C11":
		p = g.planC11()
	case "C15":
		p = g.planC15()
	case "C12":
		p = g.planC12()
	case "C13":
		p = g.planC13()
	case "C03", "C04":
		p = g.planFlows(prop)
	default:
		p = g.planC01()
		p.Property = prop
	}
	return p
}

var _ = strings.TrimSpace

// padTo extends s to exactly n bytes with a repeating, poorly compressible tail.
func padTo(s string, n int) string {
	const tail = "0123456789abcdefghijklmnopqrstuvwxyzABCDEFGHIJKLMNOPQRSTUVWXYZ-_.~"
	for i := 0; len(s) < n; i++ {
		s += string(tail[(i*7+len(s))%len(tail)])
	}
	if len(s) > n && n > 0 {
		s = s[:n]
	}
	return s
}
